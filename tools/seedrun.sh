#!/bin/bash
# seedrun.sh <seed-id> [check ...] [-- extra gosym check args]: apply /verif/seeded/<id>/patch.diff to a fresh scratch
# worktree of /repo HEAD, run the given checks (default: the seed's property) against it, remove the worktree.
set -u
ID=$1; shift
checks=""; extra=""
while [ $# -gt 0 ]; do if [ "$1" = "--" ]; then shift; extra="$*"; break; fi; checks="$checks $1"; shift; done
[ -z "$checks" ] && checks=${ID%%-*}
export GOFLAGS=-mod=mod GOPROXY=off GOSUMDB=off GOTOOLCHAIN=local
W=/tmp/wt/run-$ID-$$
git -C /repo worktree add -q --detach $W HEAD || exit 2
trap "git -C /repo worktree remove --force $W; rm -rf /tmp/seedrun-ev-$ID-$$" EXIT
( cd $W && git apply /verif/seeded/$ID/patch.diff ) || { echo "$ID: patch does not apply to HEAD"; exit 2; }
( cd $W && go build ./... ) || { echo "$ID: does not build"; exit 2; }
for c in $checks; do
  s=$(date +%s)
  o=$(cd /verif && timeout 2400 ./bin/gosym check $c --tier quick --repo $W --evidence /tmp/seedrun-ev-$ID-$$ $extra 2>&1); rc=$?
  e=$(date +%s)
  echo "$ID: check $c rc=$rc $((e-s))s violations=$(echo "$o" | grep -c '^VIOLATION') :: $(echo "$o" | grep -B1 '^VIOLATION' | grep -v '^--' | head -4 | cut -c1-260 | tr '\n' ' ')"
done
