#!/usr/bin/env python3
"""Regenerate /verif/MANIFEST.json from checks.json, properties.jsonl and not_applicable.json."""
import json, os
V='/verif'
props=[json.loads(l) for l in open(f'{V}/properties.jsonl')]
checks=json.load(open(f'{V}/checks.json'))
na={}
if os.path.exists(f'{V}/not_applicable.json'):
    na=json.load(open(f'{V}/not_applicable.json'))
man={"version":1,
 "setup_cmd":"cd /verif/engine && GOFLAGS=-mod=mod GOPROXY=off GOSUMDB=off GOTOOLCHAIN=local go build -o /verif/bin/gosym ./cmd/gosym && /verif/bin/gosym selftest",
 "hooks":{"guard":"verif","enable":"none needed: harnesses are go/packages overlays (zz_verif_*.go) injected into /repo's packages at load time; nothing is written to /repo","baseline_off_cmd":"cd /repo && go test -vet=off -count=1 ./...","source_commits":[],"add_only":True},
 "engines":[{"name":"gosym","path":"/verif/engine","serves_properties":sorted(checks.keys()),"kind_free_text":"own symbolic executor for go/ssa (x/tools v0.29.0): concrete heap, symbolic scalars/bytes as SMT bit-vector/FP terms, path forking by re-execution, z3 -in per worker with cvc5/z3-new fallback, native replay of counterexamples via go test -overlay"}],
 "checks":[],"not_applicable":[],
 "notes":"All checks: exit 0 = every path explored, every assertion unsat (KNOWN-FINDING lines for recorded defects); exit 1 = counterexample reproduced natively; exit 2 = inconclusive (unknown/unsupported/budget), never reported as success."}
for p in props:
    pid=p['id']
    if pid in checks:
        c=checks[pid]
        man["checks"].append({"property_id":pid,
          "quick_cmd":f"/verif/bin/gosym check {pid} --tier quick",
          "thorough_cmd":f"/verif/bin/gosym check {pid} --tier thorough",
          "evidence_file":f"/verif/evidence/{pid}.json",
          "replay_cmd_template":"/verif/bin/gosym replay {path}",
          "engine":"gosym",
          "level_claimed":{"category":"model_checking","text":"bounded symbolic execution of the real SSA code: holds for every input within: "+c["bounds"]+". Outside the claim: "+c["outside"],"design_ref":"DESIGN.md §5 "+pid},
          "level_note":"trusted: go/ssa builder, gosym instruction semantics and std shims (checked by native replay of every counterexample), SMT solvers (z3 4.8.12 primary, cvc5/z3 5.1 fallback); assumptions: "+"; ".join(c.get("assumptions",[])),
          "technique":"bounded symbolic execution of go/ssa + SMT (z3, cvc5/z3-new fallback), native replay"})
    else:
        man["not_applicable"].append({"property_id":pid,"reason":na.get(pid,"check not built yet (in progress; see DESIGN.md build order)")})
json.dump(man,open(f'{V}/MANIFEST.json','w'),indent=1)
print("checks:",[c["property_id"] for c in man["checks"]],"n/a:",[c["property_id"] for c in man["not_applicable"]])
