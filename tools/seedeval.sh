#!/bin/bash
# seedeval.sh <Cxx> <changeN> [checks...]: confirm a seeded change independently, store it under /verif/seeded,
# then run the given checks (default: the property's own) against /repo with the change applied.
set -u
P=$1; N=$2; shift 2
SRC=/tmp/wt/out/$P/change$N
ID=$P-$N
DST=/verif/seeded/$ID
export GOFLAGS=-mod=mod GOPROXY=off GOSUMDB=off GOTOOLCHAIN=local
[ -f $SRC/patch.diff ] || { echo "no patch for $ID"; exit 2; }
pkg=$(grep -m1 '^package ' $SRC/demo_test.go | awk '{print $2}' | sed 's/_test$//')
case $pkg in
  graphql) dir=. ;;
  parser|lexer|printer|visitor|ast|location|source) dir=language/$pkg ;;
  gqlerrors) dir=gqlerrors ;;
  *) dir=. ;;
esac
W=/tmp/wt/eval-$ID
git -C /repo worktree add -q --detach $W HEAD || exit 2
res="{}"
( cd $W && git apply $SRC/patch.diff ) || { echo "$ID: patch does not apply"; git -C /repo worktree remove --force $W; exit 2; }
( cd $W && go build ./... && go test -count=1 ./... >/tmp/seed-$ID-suite.log 2>&1 ); suite=$?
if [ $suite -ne 0 ] && [ "$(grep -c '^--- FAIL' /tmp/seed-$ID-suite.log)" = "1" ] && grep -q '^--- FAIL: TestContextDeadline' /tmp/seed-$ID-suite.log; then
  # timing-sensitive test on a loaded machine: it must pass on its own
  for try in 1 2 3; do ( cd $W && go test -count=1 -run 'TestContextDeadline' . >>/tmp/seed-$ID-suite.log 2>&1 ) && { suite=0; break; }; done
fi
cp $SRC/demo_test.go $W/$dir/zz_seed_demo_test.go
( cd $W/$dir && go test -count=1 -run 'C0|C1|C2|Change|Demo|Seed|Test' . >/tmp/seed-$ID-demo-with.log 2>&1 ); with=$?
( cd $W && git apply -R $SRC/patch.diff )
( cd $W/$dir && go test -count=1 -run 'C0|C1|C2|Change|Demo|Seed|Test' . >/tmp/seed-$ID-demo-without.log 2>&1 ); without=$?
rm -f $W/$dir/zz_seed_demo_test.go
trap "git -C /repo worktree remove --force $W" EXIT
echo "$ID: suite_with_change=$suite demo_with_change=$with demo_without_change=$without (want 0, nonzero, 0)"
if [ $suite -ne 0 ] || [ $with -eq 0 ] || [ $without -ne 0 ]; then echo "$ID: NOT CONFIRMED"; exit 3; fi
mkdir -p $DST && cp $SRC/patch.diff $SRC/demo_test.go $DST/
checks="$*"; [ -z "$checks" ] && checks=$P
out=""
( cd $W && git apply $SRC/patch.diff ) || { echo "cannot re-apply"; exit 2; }
for c in $checks; do
  o=$(cd /verif && timeout 1800 ./bin/gosym check $c --tier quick --repo $W --evidence /tmp/seed-evidence-$ID 2>&1); rc=$?
  v=$(echo "$o" | grep -c '^VIOLATION')
  first=$(echo "$o" | grep -A1 '^VIOLATION' | head -2 | tr '\n' ' ' | cut -c1-300)
  echo "$ID: check $c rc=$rc violations=$v $first"
  out="$out{\"check\":\"$c\",\"exit\":$rc,\"violations\":$v},"
done
rm -rf /tmp/seed-evidence-$ID
python3 - "$SRC/meta.json" "$DST/meta.json" "$dir" "[${out%,}]" <<'PY'
import json,sys
try: m=json.load(open(sys.argv[1]))
except Exception: m={}
m['demo_dir']=sys.argv[3]
m['confirmed']={"suite_passes_with_change":True,"demo_fails_with_change":True,"demo_passes_without_change":True,
  "how":"fresh git worktree of /repo HEAD: git apply patch; go build ./... && go test -count=1 ./...; demo copied into demo_dir and run; patch reverted; demo run again; checks run with --repo <that worktree with the patch applied> (same tree content as applying the patch in /repo)"}
m['checks_run']=json.loads(sys.argv[4])
json.dump(m,open(sys.argv[2],'w'),indent=1)
PY
