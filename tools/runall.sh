#!/bin/bash
# Run every registered check (default tier quick) and summarise.
tier=${1:-quick}
cd /verif
for p in $(python3 -c "import json;print(' '.join(sorted(json.load(open('/verif/checks.json')).keys())))"); do
  s=$(date +%s)
  out=$(./bin/gosym check $p --tier $tier 2>&1)
  rc=$?
  e=$(date +%s)
  echo "$p rc=$rc $((e-s))s $(echo "$out" | grep -c '^KNOWN-FINDING') known $(echo "$out" | grep '^VIOLATION\|PROBLEM' | head -3 | tr '\n' ' ' | cut -c1-300)"
done
