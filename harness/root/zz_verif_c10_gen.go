package graphql

import (
	"github.com/graphql-go/graphql/language/ast"
)

// ZZ_C10_generated: a schema generated from a small specification table whose
// shape is chosen by the engine (wrapping of a field type and an argument type
// up to five wrappers deep, base types of every kind, how the second
// implementer reaches the schema, which root types exist, thunked members,
// includeDeprecated) and whose texts (descriptions, deprecation reasons) are
// symbolic bytes. The whole schema is introspected in one request and every
// attribute is compared with the specification: the type set is computed by the
// oracle's own reachability over the table.

type zzGRef struct {
	wraps string // outer to inner: 'N' non-null, 'L' list
	base  string
}

type zzGArg struct {
	name, desc string
	typ        zzGRef
	hasDef     bool
	def        interface{}
}

type zzGField struct {
	name, desc string
	typ        zzGRef
	args       []zzGArg
	depReason  string
}

type zzGEnumVal struct {
	name, desc, depReason string
	value                 interface{}
}

type zzGType struct {
	name, kind, desc string
	fields           []zzGField
	ifaces           []string
	members          []string
	values           []zzGEnumVal
	inputs           []zzGArg
}

var zzGWrapMenu = []string{"", "N", "L", "NL", "LN", "NLN", "LL", "LNL", "NLNLN"}

func zzGKind(spec []zzGType, name string) string {
	switch name {
	case "String", "Int", "Float", "Boolean", "ID":
		return "SCALAR"
	}
	for i := range spec {
		if spec[i].name == name {
			return spec[i].kind
		}
	}
	return "?"
}

func (r zzGRef) expect(spec []zzGType) string {
	s := ""
	for _, c := range r.wraps {
		if c == 'N' {
			s += "NON_NULL "
		} else {
			s += "LIST "
		}
	}
	return s + zzGKind(spec, r.base) + ":" + r.base
}

func (r zzGRef) build(named map[string]Type) Type {
	t := named[r.base]
	for i := len(r.wraps) - 1; i >= 0; i-- {
		if r.wraps[i] == 'N' {
			t = NewNonNull(t)
		} else {
			t = NewList(t)
		}
	}
	return t
}

const zzTypeRef6 = "kind name ofType{kind name ofType{kind name ofType{kind name ofType{kind name ofType{kind name ofType{kind name}}}}}}"

func zzGTypeOf(spec []zzGType, name string) *zzGType {
	for i := range spec {
		if spec[i].name == name {
			return &spec[i]
		}
	}
	return nil
}

// zzGReach: the names the type map must hold, from the given starting names.
func zzGReach(spec []zzGType, start []string) map[string]bool {
	seen := map[string]bool{}
	var visit func(n string)
	visit = func(n string) {
		if n == "" || seen[n] {
			return
		}
		seen[n] = true
		t := zzGTypeOf(spec, n)
		if t == nil {
			return
		}
		for _, f := range t.fields {
			visit(f.typ.base)
			for _, a := range f.args {
				visit(a.typ.base)
			}
		}
		for _, i := range t.ifaces {
			visit(i)
		}
		for _, m := range t.members {
			visit(m)
		}
		for _, a := range t.inputs {
			visit(a.typ.base)
		}
	}
	for _, s := range start {
		visit(s)
	}
	return seen
}

func zzGStrOrNil(v interface{}, want string) bool {
	if want == "" {
		return v == nil || v == ""
	}
	s, ok := v.(string)
	return ok && s == want
}

func zzGFind(list interface{}, name string) map[string]interface{} {
	l, _ := list.([]interface{})
	var found map[string]interface{}
	n := 0
	for _, e := range l {
		if m, ok := e.(map[string]interface{}); ok && m["name"] == name {
			found = m
			n++
		}
	}
	if n != 1 {
		return nil
	}
	return found
}

func zzGCheckArgs(spec []zzGType, named map[string]Type, got interface{}, want []zzGArg, what string) {
	l, _ := got.([]interface{})
	zzAssert(len(l) == len(want), what+": number of arguments / input fields")
	for _, a := range want {
		m := zzGFind(got, a.name)
		zzAssert(m != nil, what+"."+a.name+": not reported exactly once")
		zzAssert(zzGStrOrNil(m["description"], a.desc), what+"."+a.name+": description")
		zzAssert(zzReportedKinds(m["type"]) == a.typ.expect(spec), what+"."+a.name+": wrapped type reference")
		if !a.hasDef {
			zzAssert(m["defaultValue"] == nil, what+"."+a.name+": a default is reported where none was configured")
		} else {
			dv, ok := m["defaultValue"].(string)
			zzAssert(ok, what+"."+a.name+": default value missing")
			zzAssert(zzDefaultRoundTrip(dv, a.typ.build(named).(Input), a.def), what+"."+a.name+": reported default does not read back as the configured default")
		}
	}
}

func ZZ_C10_generated() {
	wf := zzGWrapMenu[zzChoice("wrapF", len(zzGWrapMenu))]
	bf := []string{"String", "T", "I", "U", "E", "Odd"}[zzChoice("baseF", 6)]
	row := zzChoice("row", zzParam("ROWS", 20))
	wa := []string{"", "N", "L", "NLN", "LL"}[row%5]
	ba := []string{"Int", "E", "In", "Odd"}[(row/5+row)%4]
	mode := (row / 2) % 4 // how V reaches the schema: 0 union member, 1 Types, 2 AppendType(V), 3 AppendType(U)
	roots := (row / 3) % 4
	thunk := row%2 == 1
	incl := (row/4)%2 == 1
	if zzParam("FULL", 0) == 1 {
		wa = []string{"", "N", "L", "NLN", "LL"}[zzChoice("wrapA", 5)]
		ba = []string{"Int", "E", "In", "Odd"}[zzChoice("baseA", 4)]
		mode = zzChoice("mode", 4)
		roots = zzChoice("roots", 4)
		thunk = zzChoice("thunk", 2) == 1
		incl = zzChoice("incl", 2) == 1
	}
	if bf == "U" && (mode == 1 || mode == 2) {
		mode = 0
	}
	dT, dF, dA, dE, dV := zzString("dT", 1), zzString("dF", 1), zzString("dA", 1), zzString("dE", 1), zzString("dV", 1)
	rB, rO := zzString("rB", 1), zzString("rO", 1)
	dD := zzString("dD", 1)

	// argument default matching its type
	var argDef interface{}
	hasArgDef := wa != "N" && wa != "NLN"
	switch {
	case !hasArgDef:
	case wa == "":
		argDef = map[string]interface{}{"Int": interface{}(3), "E": interface{}("b"), "In": interface{}(map[string]interface{}{"y": 0}), "Odd": interface{}(5)}[ba]
	case wa == "L":
		argDef = map[string]interface{}{"Int": interface{}([]interface{}{1, 2}), "E": interface{}([]interface{}{"b", 0}),
			"In": interface{}([]interface{}{map[string]interface{}{"y": "b"}}), "Odd": interface{}([]interface{}{7})}[ba]
	case wa == "LL":
		argDef = map[string]interface{}{"Int": interface{}([]interface{}{[]interface{}{1}, []interface{}{}}), "E": interface{}([]interface{}{[]interface{}{0}}),
			"In": interface{}([]interface{}{[]interface{}{map[string]interface{}{"y": 0}}}), "Odd": interface{}([]interface{}{[]interface{}{9, 11}})}[ba]
	}

	spec := []zzGType{
		{name: "E", kind: "ENUM", desc: dE, values: []zzGEnumVal{{name: "A", desc: dV, value: 0}, {name: "B", depReason: rB, value: "b"}}},
		{name: "Odd", kind: "SCALAR", desc: "odd"},
		// an interface nobody implements; K is referenced by its argument only
		{name: "K", kind: "ENUM", values: []zzGEnumVal{{name: "X", value: 1}}},
		{name: "J", kind: "INTERFACE", fields: []zzGField{{name: "g", typ: zzGRef{"", "String"}, args: []zzGArg{{name: "k", typ: zzGRef{"L", "K"}}}}}},
		{name: "In", kind: "INPUT_OBJECT", desc: "", inputs: []zzGArg{
			{name: "x", typ: zzGRef{wa, "Int"}}, {name: "y", desc: dA, typ: zzGRef{"", "E"}, hasDef: true, def: "b"}}},
		{name: "I", kind: "INTERFACE", desc: dT, fields: []zzGField{{name: "id", typ: zzGRef{"", "ID"}}}, members: nil},
		{name: "T", kind: "OBJECT", desc: dT, ifaces: []string{"I"}, fields: []zzGField{
			{name: "id", typ: zzGRef{"", "ID"}},
			{name: "f", desc: dF, typ: zzGRef{wf, bf}, args: []zzGArg{{name: "a", desc: dA, typ: zzGRef{wa, ba}, hasDef: hasArgDef, def: argDef}}},
			{name: "old", typ: zzGRef{"", "Int"}, depReason: rO},
		}},
		{name: "V", kind: "OBJECT", ifaces: []string{"I"}, fields: []zzGField{{name: "id", typ: zzGRef{"", "ID"}}}},
		{name: "U", kind: "UNION", desc: dF, members: []string{"T", "V"}},
		{name: "Query", kind: "OBJECT", fields: []zzGField{{name: "t", typ: zzGRef{"", "T"}}, {name: "i", typ: zzGRef{"L", "I"}}, {name: "j", typ: zzGRef{"", "J"}}}},
		{name: "M", kind: "OBJECT", fields: []zzGField{{name: "m", typ: zzGRef{"N", "Boolean"}}}},
		{name: "S", kind: "OBJECT", fields: []zzGField{{name: "s", typ: zzGRef{"", "String"}}}},
	}
	if mode == 0 {
		q := zzGTypeOf(spec, "Query")
		q.fields = append(q.fields, zzGField{name: "u", typ: zzGRef{"", "U"}})
	}
	dirArgs := []zzGArg{{name: "x", desc: dA, typ: zzGRef{wa, ba}, hasDef: hasArgDef, def: argDef}}

	// ---- build the real schema from the table
	named := map[string]Type{"String": String, "Int": Int, "Float": Float, "Boolean": Boolean, "ID": ID}
	named["Odd"] = NewScalar(ScalarConfig{Name: "Odd", Description: "odd",
		Serialize:  func(v interface{}) interface{} { return v },
		ParseValue: func(v interface{}) interface{} { return v },
		ParseLiteral: func(v ast.Value) interface{} {
			if iv, ok := v.(*ast.IntValue); ok {
				n := 0
				for _, c := range iv.Value {
					n = n*10 + int(c-'0')
				}
				return n
			}
			return nil
		}})
	for _, en := range []string{"E", "K"} {
		evs := EnumValueConfigMap{}
		for _, v := range zzGTypeOf(spec, en).values {
			evs[v.name] = &EnumValueConfig{Value: v.value, Description: v.desc, DeprecationReason: v.depReason}
		}
		named[en] = NewEnum(EnumConfig{Name: en, Description: zzGTypeOf(spec, en).desc, Values: evs})
	}
	mkArgs := func(as []zzGArg) FieldConfigArgument {
		out := FieldConfigArgument{}
		for _, a := range as {
			ac := &ArgumentConfig{Type: a.typ.build(named).(Input), Description: a.desc}
			if a.hasDef {
				ac.DefaultValue = a.def
			}
			out[a.name] = ac
		}
		return out
	}
	mkFields := func(t *zzGType) Fields {
		fs := Fields{}
		for _, f := range t.fields {
			fs[f.name] = &Field{Type: f.typ.build(named).(Output), Description: f.desc, DeprecationReason: f.depReason, Args: mkArgs(f.args)}
		}
		return fs
	}
	inSpec := zzGTypeOf(spec, "In")
	named["In"] = NewInputObject(InputObjectConfig{Name: "In", Fields: InputObjectConfigFieldMapThunk(func() InputObjectConfigFieldMap {
		m := InputObjectConfigFieldMap{}
		for _, a := range inSpec.inputs {
			c := &InputObjectFieldConfig{Type: a.typ.build(named).(Input), Description: a.desc}
			if a.hasDef {
				c.DefaultValue = a.def
			}
			m[a.name] = c
		}
		return m
	})})
	iface := NewInterface(InterfaceConfig{Name: "I", Description: dT, Fields: FieldsThunk(func() Fields { return mkFields(zzGTypeOf(spec, "I")) }),
		ResolveType: func(p ResolveTypeParams) *Object { return nil }})
	named["I"] = iface
	named["J"] = NewInterface(InterfaceConfig{Name: "J", Fields: FieldsThunk(func() Fields { return mkFields(zzGTypeOf(spec, "J")) }),
		ResolveType: func(p ResolveTypeParams) *Object { return nil }})
	mkObj := func(name string) *Object {
		t := zzGTypeOf(spec, name)
		cfg := ObjectConfig{Name: name, Description: t.desc}
		cfg.Fields = FieldsThunk(func() Fields { return mkFields(t) }) // field types may refer to types built later
		if len(t.ifaces) > 0 {
			if thunk {
				cfg.Interfaces = InterfacesThunk(func() []*Interface { return []*Interface{iface} })
			} else {
				cfg.Interfaces = []*Interface{iface}
			}
		}
		o := NewObject(cfg)
		named[name] = o
		return o
	}
	tObj, vObj := mkObj("T"), mkObj("V")
	ucfg := UnionConfig{Name: "U", Description: dF, ResolveType: func(p ResolveTypeParams) *Object { return nil }}
	if thunk {
		ucfg.Types = UnionTypesThunk(func() []*Object { return []*Object{tObj, vObj} })
	} else {
		ucfg.Types = []*Object{tObj, vObj}
	}
	uni := NewUnion(ucfg)
	named["U"] = uni
	qObj, mObj, sObj := mkObj("Query"), mkObj("M"), mkObj("S")
	dir := NewDirective(DirectiveConfig{Name: "d", Description: dD, Locations: []string{DirectiveLocationField, DirectiveLocationFragmentSpread, DirectiveLocationMutation},
		Args: mkArgs(dirArgs)})
	cfg := SchemaConfig{Query: qObj, Directives: append([]*Directive{dir}, SpecifiedDirectives...)}
	start := []string{"Query", "String", "Boolean", ba}
	if roots&1 == 1 {
		cfg.Mutation = mObj
		start = append(start, "M")
	}
	if roots&2 == 2 {
		cfg.Subscription = sObj
		start = append(start, "S")
	}
	if mode == 1 {
		cfg.Types = []Type{vObj}
	}
	schema, err := NewSchema(cfg)
	if err != nil {
		zzFail("NewSchema rejected the generated schema: " + err.Error())
	}
	switch mode {
	case 2:
		zzAssert(schema.AppendType(vObj) == nil, "AppendType(V)")
	case 3:
		zzAssert(schema.AppendType(uni) == nil, "AppendType(U)")
	}
	switch mode {
	case 1, 2:
		start = append(start, "V")
	case 3:
		start = append(start, "U")
	}
	want := zzGReach(spec, start)

	dep := "false"
	if incl {
		dep = "true"
	}
	query := `{ __schema { queryType{name} mutationType{name} subscriptionType{name}
  types { kind name description
    fields(includeDeprecated:` + dep + `){ name description isDeprecated deprecationReason type{` + zzTypeRef6 + `} args{ name description defaultValue type{` + zzTypeRef6 + `} } }
    interfaces{name kind} possibleTypes{name kind}
    enumValues(includeDeprecated:` + dep + `){ name description isDeprecated deprecationReason }
    inputFields{ name description defaultValue type{` + zzTypeRef6 + `} }
    ofType{name} }
  directives{ name description locations args{ name description defaultValue type{` + zzTypeRef6 + `} } } } }`
	r := Do(Params{Schema: schema, RequestString: query})
	if len(r.Errors) > 0 {
		zzFail("introspection query failed: " + r.Errors[0].Message)
	}
	sch := r.Data.(map[string]interface{})["__schema"].(map[string]interface{})
	zzAssert(sch["queryType"].(map[string]interface{})["name"] == "Query", "queryType")
	if roots&1 == 1 {
		m, _ := sch["mutationType"].(map[string]interface{})
		zzAssert(m != nil && m["name"] == "M", "mutationType")
	} else {
		zzAssert(sch["mutationType"] == nil, "mutationType reported though none was configured")
	}
	if roots&2 == 2 {
		m, _ := sch["subscriptionType"].(map[string]interface{})
		zzAssert(m != nil && m["name"] == "S", "subscriptionType")
	} else {
		zzAssert(sch["subscriptionType"] == nil, "subscriptionType reported though none was configured")
	}
	// ---- the type set
	types, _ := sch["types"].([]interface{})
	builtin := []string{"__Schema", "__Type", "__TypeKind", "__Field", "__InputValue", "__EnumValue", "__Directive", "__DirectiveLocation"}
	nWant := len(builtin)
	for range want {
		nWant++
	}
	for _, b := range builtin {
		zzAssert(zzGFind(sch["types"], b) != nil, "introspection type "+b+" not listed exactly once")
	}
	for n := range want {
		zzAssert(zzGFind(sch["types"], n) != nil, "type "+n+" is reachable but not listed exactly once")
	}
	if len(types) != nWant {
		for _, e := range types {
			n, _ := e.(map[string]interface{})["name"].(string)
			if !want[n] && (len(n) < 2 || n[:2] != "__") {
				zzFail("type " + n + " is listed but neither reachable nor supplied")
			}
		}
		zzFail("type list has duplicates")
	}
	// ---- every described type against the table
	for n := range want {
		tm := zzGFind(sch["types"], n)
		ts := zzGTypeOf(spec, n)
		if ts == nil { // built-in scalar
			zzAssert(tm["kind"] == "SCALAR", n+": kind")
			continue
		}
		zzAssert(tm["kind"] == ts.kind, n+": kind")
		zzAssert(zzGStrOrNil(tm["description"], ts.desc), n+": description")
		zzAssert(tm["ofType"] == nil, n+": ofType of a named type")
		// fields
		if ts.kind == "OBJECT" || ts.kind == "INTERFACE" {
			cnt := 0
			for _, f := range ts.fields {
				fm := zzGFind(tm["fields"], f.name)
				if f.depReason != "" && !incl {
					zzAssert(fm == nil, n+"."+f.name+": deprecated field listed without includeDeprecated")
					continue
				}
				cnt++
				zzAssert(fm != nil, n+"."+f.name+": field not reported exactly once")
				zzAssert(zzGStrOrNil(fm["description"], f.desc), n+"."+f.name+": description")
				zzAssert(zzReportedKinds(fm["type"]) == f.typ.expect(spec), n+"."+f.name+": wrapped type reference")
				zzAssert(fm["isDeprecated"] == (f.depReason != ""), n+"."+f.name+": isDeprecated")
				zzAssert(zzGStrOrNil(fm["deprecationReason"], f.depReason) && (f.depReason != "" || fm["deprecationReason"] == nil), n+"."+f.name+": deprecationReason")
				zzGCheckArgs(spec, named, fm["args"], f.args, n+"."+f.name)
			}
			l, _ := tm["fields"].([]interface{})
			zzAssert(len(l) == cnt, n+": number of fields")
		} else {
			zzAssert(tm["fields"] == nil, n+": fields on a type that has none")
		}
		if ts.kind == "OBJECT" {
			zzAssert(zzSameSet(zzNamesOf(tm["interfaces"]), ts.ifaces...), n+": interfaces")
		} else {
			zzAssert(tm["interfaces"] == nil, n+": interfaces on a non-object")
		}
		switch ts.kind {
		case "UNION":
			zzAssert(zzSameSet(zzNamesOf(tm["possibleTypes"]), ts.members...), n+": possible types of the union, each once")
		case "INTERFACE":
			var impl []string
			for i := range spec {
				if want[spec[i].name] {
					for _, in := range spec[i].ifaces {
						if in == n {
							impl = append(impl, spec[i].name)
						}
					}
				}
			}
			zzAssert(zzSameSet(zzNamesOf(tm["possibleTypes"]), impl...), n+": possible types of the interface = implementers in the schema, each once")
		default:
			zzAssert(tm["possibleTypes"] == nil, n+": possibleTypes on a concrete type")
		}
		if ts.kind == "ENUM" {
			cnt := 0
			for _, v := range ts.values {
				vm := zzGFind(tm["enumValues"], v.name)
				if v.depReason != "" && !incl {
					zzAssert(vm == nil, n+"."+v.name+": deprecated value listed without includeDeprecated")
					continue
				}
				cnt++
				zzAssert(vm != nil, n+"."+v.name+": enum value not reported exactly once")
				zzAssert(zzGStrOrNil(vm["description"], v.desc), n+"."+v.name+": description")
				zzAssert(vm["isDeprecated"] == (v.depReason != ""), n+"."+v.name+": isDeprecated")
				zzAssert(zzGStrOrNil(vm["deprecationReason"], v.depReason) && (v.depReason != "" || vm["deprecationReason"] == nil), n+"."+v.name+": deprecationReason")
			}
			l, _ := tm["enumValues"].([]interface{})
			zzAssert(len(l) == cnt, n+": number of enum values")
		} else {
			zzAssert(tm["enumValues"] == nil, n+": enumValues on a non-enum")
		}
		if ts.kind == "INPUT_OBJECT" {
			zzGCheckArgs(spec, named, tm["inputFields"], ts.inputs, n)
		} else {
			zzAssert(tm["inputFields"] == nil, n+": inputFields on a non-input-object")
		}
	}
	// ---- directives
	zzAssert(zzSameSet(zzNamesOf(sch["directives"]), "d", "include", "skip", "deprecated"), "directives")
	dm := zzGFind(sch["directives"], "d")
	zzAssert(zzGStrOrNil(dm["description"], dD), "directive description")
	locs, _ := dm["locations"].([]interface{})
	zzAssert(len(locs) == 3 && locs[0] == "FIELD" && locs[1] == "FRAGMENT_SPREAD" && locs[2] == "MUTATION", "directive locations")
	zzGCheckArgs(spec, named, dm["args"], dirArgs, "@d")
	// ---- possible-type membership through the API agrees
	zzAssert(schema.IsPossibleType(iface, tObj), "IsPossibleType(I,T)")
	zzAssert(schema.IsPossibleType(iface, vObj) == want["V"], "IsPossibleType(I,V) differs from membership in the schema")
	zzCover("end")
}

type zzKindVal struct {
	Kind string
	N    int
}

// ZZ_C10_typename: abstract fields (an interface and a union, both without
// ResolveType) whose values are all of one Go type and are told apart by
// IsTypeOf looking into the value: __typename and the type-conditioned
// sub-selection follow the runtime type of EVERY value, for single values and
// list elements, through Do and through one prepared plan executed twice with
// different values.
func ZZ_C10_typename() {
	var kinds [2][3]string
	for r := 0; r < 2; r++ {
		for i := 0; i < 3; i++ {
			kinds[r][i] = []string{"A", "B"}[zzChoice("kind"+string(rune('0'+r))+string(rune('0'+i)), 2)]
		}
	}
	round := 0
	iface := NewInterface(InterfaceConfig{Name: "I", Fields: Fields{"n": &Field{Type: Int}}})
	mk := func(name string) *Object {
		return NewObject(ObjectConfig{Name: name, Interfaces: []*Interface{iface},
			IsTypeOf: func(p IsTypeOfParams) bool { v, ok := p.Value.(zzKindVal); return ok && v.Kind == name },
			Fields: Fields{
				"n": &Field{Type: Int, Resolve: func(p ResolveParams) (interface{}, error) { return p.Source.(zzKindVal).N, nil }},
				"only" + name: &Field{Type: String, Resolve: func(p ResolveParams) (interface{}, error) { return name, nil }},
			}})
	}
	a, b := mk("A"), mk("B")
	uni := NewUnion(UnionConfig{Name: "U", Types: []*Object{a, b}})
	list := func(p ResolveParams) (interface{}, error) {
		return []interface{}{zzKindVal{kinds[round][0], 0}, zzKindVal{kinds[round][1], 1}, zzKindVal{kinds[round][2], 2}}, nil
	}
	one := func(p ResolveParams) (interface{}, error) { return zzKindVal{kinds[round][2], 2}, nil }
	q := NewObject(ObjectConfig{Name: "Query", Fields: Fields{
		"is": &Field{Type: NewList(iface), Resolve: list}, "us": &Field{Type: NewList(uni), Resolve: list},
		"i": &Field{Type: iface, Resolve: one}, "u": &Field{Type: uni, Resolve: one}}})
	schema, err := NewSchema(SchemaConfig{Query: q, Types: []Type{a, b}})
	zzAssert(err == nil, "schema")
	sel := "{ __typename ... on A { onlyA } ... on B { onlyB } ... on I { n } }"
	query := "{ is " + sel + " us " + sel + " i " + sel + " u " + sel + " }"
	check := func(r *Result, what string) {
		if len(r.Errors) > 0 {
			zzFail(what + ": " + r.Errors[0].Message)
		}
		d := r.Data.(map[string]interface{})
		elem := func(v interface{}, i int, where string) {
			m, _ := v.(map[string]interface{})
			k := kinds[round][i]
			zzAssert(m != nil && m["__typename"] == k, what+": __typename of "+where+" does not name the runtime type")
			zzAssert(m["only"+k] == k && len(m) == 3 && m["n"] == i, what+": sub-selection of "+where+" is not the runtime type's")
		}
		for _, f := range []string{"is", "us"} {
			l, _ := d[f].([]interface{})
			zzAssert(len(l) == 3, what+": list length")
			for i := range l {
				elem(l[i], i, f+"["+string(rune('0'+i))+"]")
			}
		}
		elem(d["i"], 2, "i")
		elem(d["u"], 2, "u")
	}
	if zzChoice("entry", 2) == 0 {
		check(Do(Params{Schema: schema, RequestString: query}), "Do")
		round = 1
		check(Do(Params{Schema: schema, RequestString: query}), "second Do")
	} else {
		plan, perr := PlanQuery(&schema, zzParse(query), "")
		zzAssert(perr == nil, "PlanQuery")
		check(ExecutePlan(plan, ExecuteParams{Schema: schema}), "ExecutePlan")
		round = 1
		check(ExecutePlan(plan, ExecuteParams{Schema: schema}), "second ExecutePlan of the same plan")
	}
	zzCover("end")
}
