package graphql

import (
	"context"
	"time"

	"github.com/graphql-go/graphql/language/ast"
)

// zzCancelCtx: a caller-supplied context cancelled by the harness.
type zzCancelCtx struct {
	done chan struct{}
	err  error
}

func (c *zzCancelCtx) Deadline() (time.Time, bool)       { return time.Time{}, false }
func (c *zzCancelCtx) Done() <-chan struct{}             { return c.done }
func (c *zzCancelCtx) Err() error                        { return c.err }
func (c *zzCancelCtx) Value(key interface{}) interface{} { return nil }
func (c *zzCancelCtx) cancel() {
	if c.err == nil {
		c.err = context.Canceled
		close(c.done)
	}
}

type zzWrapErr struct {
	msg string
	err error
}

func (e zzWrapErr) Error() string { return e.msg + ": " + e.err.Error() }
func (e zzWrapErr) Unwrap() error { return e.err }

// ZZ_C16_cancel: the context is cancelled at a chosen point of an execution of
// three top-level fields (before the call, while resolver k is blocked, right
// after the last resolver, never); resolvers ignore or observe the context;
// every schedule with up to P forced preemptions is explored. The call always
// returns, and returns either exactly the context's error without data or the
// complete normal response.
func ZZ_C16_cancel() {
	const n = 3
	// 0 before, 1..n at resolver k, n+1 after last, n+2 never, n+3 during variable coercion
	point := zzChoice("point", n+4)
	mutation := zzChoice("op", 2) == 1 // the same three fields as a (serial) mutation
	obs := zzChoice("observe", 3)
	observe := obs == 1
	// ownDeadline: resolver k fails with the error of a narrower context of its
	// own (a backend call that timed out) while the request's context stays alive:
	// that is an ordinary field error and belongs in the complete response
	ownDeadline := obs == 2
	if ownDeadline {
		zzAssume(point >= 1 && point <= n)
	}
	ctx := &zzCancelCtx{done: make(chan struct{})}
	reached := make(chan struct{})
	gate := make(chan struct{}) // never opened
	var calls int
	// phase2: after the cancelled call has returned (its resolver still blocked),
	// a second request runs on the same schema; its first resolver opens the gate,
	// so the abandoned execution carries on (and fails its remaining fields) while
	// the second request is in flight
	phase2 := false
	lateFail := false
	// errFirst: the cancellation becomes visible through Err() before Done() is
	// signalled (the window every context implementation has between recording
	// the error and closing the channel), here stretched over the rest of the call
	errFirst := !ownDeadline && point >= 1 && point <= n && zzChoice("errfirst", 2) == 1
	resolver := func(k int) FieldResolveFn {
		return func(p ResolveParams) (interface{}, error) {
			calls++
			if phase2 {
				if _, first := p.Context.(*zzCancelCtx); !first { // a resolver of the second request
					if k == 1 {
						close(gate)
					}
					return k, nil
				}
				// a resolver of the abandoned first request
				return nil, zzWrapErr{"late failure of the abandoned request", context.Canceled}
			}
			if k == point && ownDeadline {
				return nil, zzWrapErr{"backend call", context.DeadlineExceeded}
			}
			if k == point && errFirst {
				ctx.err = context.Canceled
				return k, nil
			}
			if k == point {
				close(reached)
				if observe {
					select {
					case <-p.Context.Done():
						return nil, p.Context.Err()
					case <-gate:
					}
				} else {
					<-gate // blocks for ever: the call must not wait for it
				}
			}
			if k == n && point == n+1 {
				close(reached) // cancellation races with completion
			}
			return k, nil
		}
	}
	// a custom scalar whose ParseValue is user code running during variable coercion
	slow := NewScalar(ScalarConfig{Name: "Slow",
		Serialize: func(v interface{}) interface{} { return v },
		ParseValue: func(v interface{}) interface{} {
			if point == n+3 {
				select {
				case <-reached:
				default:
					close(reached)
				}
				<-gate // blocks for ever: the call must not wait for it
			}
			return v
		},
		ParseLiteral: func(v ast.Value) interface{} { return 1 }})
	fields := Fields{
		"f1": &Field{Type: Int, Args: FieldConfigArgument{"s": &ArgumentConfig{Type: slow}}, Resolve: resolver(1)},
		"f2": &Field{Type: Int, Resolve: resolver(2)},
		"f3": &Field{Type: Int, Resolve: resolver(3)},
	}
	q := NewObject(ObjectConfig{Name: "Query", Fields: fields})
	m := NewObject(ObjectConfig{Name: "Mutation", Fields: fields})
	schema, err := NewSchema(SchemaConfig{Query: q, Mutation: m})
	zzAssert(err == nil, "schema")
	if point == 0 {
		ctx.cancel()
	} else if (point <= n+1 || point == n+3) && !errFirst && !ownDeadline {
		go func() {
			<-reached
			ctx.cancel()
		}()
	}
	zzSched(true, zzParam("P", 1))
	req := "query($s: Slow){ f1(s: $s) f2 f3 }"
	if mutation {
		req = "mutation($s: Slow){ f1(s: $s) f2 f3 }"
	}
	r := Do(Params{Schema: schema, RequestString: req, VariableValues: map[string]interface{}{"s": 1}, Context: ctx})
	zzSched(false, 0)
	zzAssert(r != nil, "nil result")
	isCtxErr := r.Data == nil && len(r.Errors) == 1 && r.Errors[0].Message == "context canceled"
	full := false
	if m, ok := r.Data.(map[string]interface{}); ok && len(r.Errors) == 0 {
		full = len(m) == 3 && m["f1"] == 1 && m["f2"] == 2 && m["f3"] == 3
	}
	observedFull := false
	if m, ok := r.Data.(map[string]interface{}); ok && observe && point >= 1 && point <= n {
		// a resolver that observed the cancellation reports the context error for its field:
		// that is the complete normal response of such a resolver
		observedFull = len(m) == 3 && len(r.Errors) == 1 && r.Errors[0].Message == "context canceled"
	}
	if ownDeadline {
		m, _ := r.Data.(map[string]interface{})
		ok := len(m) == 3 && len(r.Errors) == 1 && r.Errors[0].Message == "backend call: context deadline exceeded" &&
			len(r.Errors[0].Path) == 1 && r.Errors[0].Path[0] == "f"+string(rune('0'+point))
		for k := 1; ok && k <= n; k++ {
			if k == point {
				ok = m["f"+string(rune('0'+k))] == nil
			} else {
				ok = m["f"+string(rune('0'+k))] == k
			}
		}
		zzAssert(ok, "a field failing with its own deadline error while the request is alive: the complete response carries that field error")
		zzCover("end")
		return
	}
	zzAssert(isCtxErr || full || observedFull, "result is neither the context error nor the complete response")
	if point >= 1 && point <= n && !observe && !errFirst {
		zzAssert(isCtxErr, "a blocked resolver: the call must return the context error")
	}
	if point == n+3 {
		zzAssert(isCtxErr, "variable coercion blocked in user code: the call must return the context error")
	}
	if point >= 1 && point < n && !observe && !errFirst && !mutation && zzParam("PHASE2", 1) == 1 {
		// the abandoned execution is parked in resolver `point`; a second request
		// must be answered as if alone, whatever the abandoned one does meanwhile
		phase2 = true
		_ = lateFail
		zzRace(true) // the abandoned execution must not touch what the second request uses
		zzSched(true, zzParam("P", 1))
		r2 := Do(Params{Schema: schema, RequestString: "{ f1 f2 f3 }"})
		zzSched(false, 0)
		zzRace(false)
		m2, _ := r2.Data.(map[string]interface{})
		zzAssert(len(r2.Errors) == 0 && len(m2) == 3 && m2["f1"] == 1 && m2["f2"] == 2 && m2["f3"] == 3, "a request served while an abandoned execution is still running is not answered as if alone")
		zzQuiesce()
		zzCover("phase2")
	}
	if point == n+2 {
		zzAssert(full, "without cancellation the complete response is returned")
	}
	zzCover("end")
}
