package graphql

import (
	"context"
	"time"
)

// zzCancelCtx: a caller-supplied context cancelled by the harness.
type zzCancelCtx struct {
	done chan struct{}
	err  error
}

func (c *zzCancelCtx) Deadline() (time.Time, bool)       { return time.Time{}, false }
func (c *zzCancelCtx) Done() <-chan struct{}             { return c.done }
func (c *zzCancelCtx) Err() error                        { return c.err }
func (c *zzCancelCtx) Value(key interface{}) interface{} { return nil }
func (c *zzCancelCtx) cancel() {
	if c.err == nil {
		c.err = context.Canceled
		close(c.done)
	}
}

// ZZ_C16_cancel: the context is cancelled at a chosen point of an execution of
// three top-level fields (before the call, while resolver k is blocked, right
// after the last resolver, never); resolvers ignore or observe the context;
// every schedule with up to P forced preemptions is explored. The call always
// returns, and returns either exactly the context's error without data or the
// complete normal response.
func ZZ_C16_cancel() {
	const n = 3
	point := zzChoice("point", n+3) // 0 before, 1..n at resolver k, n+1 after last, n+2 never
	observe := zzChoice("observe", 2) == 1
	ctx := &zzCancelCtx{done: make(chan struct{})}
	reached := make(chan struct{})
	gate := make(chan struct{}) // never opened
	var calls int
	resolver := func(k int) FieldResolveFn {
		return func(p ResolveParams) (interface{}, error) {
			calls++
			if k == point {
				close(reached)
				if observe {
					select {
					case <-p.Context.Done():
						return nil, p.Context.Err()
					case <-gate:
					}
				} else {
					<-gate // blocks for ever: the call must not wait for it
				}
			}
			if k == n && point == n+1 {
				close(reached) // cancellation races with completion
			}
			return k, nil
		}
	}
	q := NewObject(ObjectConfig{Name: "Query", Fields: Fields{
		"f1": &Field{Type: Int, Resolve: resolver(1)},
		"f2": &Field{Type: Int, Resolve: resolver(2)},
		"f3": &Field{Type: Int, Resolve: resolver(3)},
	}})
	schema, err := NewSchema(SchemaConfig{Query: q})
	zzAssert(err == nil, "schema")
	if point == 0 {
		ctx.cancel()
	} else if point <= n+1 {
		go func() {
			<-reached
			ctx.cancel()
		}()
	}
	zzSched(true, zzParam("P", 1))
	r := Do(Params{Schema: schema, RequestString: "{ f1 f2 f3 }", Context: ctx})
	zzSched(false, 0)
	zzAssert(r != nil, "nil result")
	isCtxErr := r.Data == nil && len(r.Errors) == 1 && r.Errors[0].Message == "context canceled"
	full := false
	if m, ok := r.Data.(map[string]interface{}); ok && len(r.Errors) == 0 {
		full = len(m) == 3 && m["f1"] == 1 && m["f2"] == 2 && m["f3"] == 3
	}
	observedFull := false
	if m, ok := r.Data.(map[string]interface{}); ok && observe && point >= 1 && point <= n {
		// a resolver that observed the cancellation reports the context error for its field:
		// that is the complete normal response of such a resolver
		observedFull = len(m) == 3 && len(r.Errors) == 1 && r.Errors[0].Message == "context canceled"
	}
	zzAssert(isCtxErr || full || observedFull, "result is neither the context error nor the complete response")
	if point >= 1 && point <= n && !observe {
		zzAssert(isCtxErr, "a blocked resolver: the call must return the context error")
	}
	if point == n+2 {
		zzAssert(full, "without cancellation the complete response is returned")
	}
	zzCover("end")
}
