package graphql

import (
	"fmt"
	"sync"
)

type zzC07Val struct{ T string }

// zzC07Schema: a cold schema with stateless resolvers (nothing in the harness
// is shared between the goroutines except the library objects under test).
func zzC07Schema() Schema {
	color := NewEnum(EnumConfig{Name: "Color", Values: EnumValueConfigMap{
		"RED": &EnumValueConfig{Value: 0}, "GREEN": &EnumValueConfig{Value: 1}}})
	var a, b *Object
	var node *Interface
	node = NewInterface(InterfaceConfig{Name: "Node", Fields: FieldsThunk(func() Fields {
		return Fields{"id": &Field{Type: String}, "next": &Field{Type: node}}
	}),
		ResolveType: func(p ResolveTypeParams) *Object {
			if v, ok := p.Value.(zzC07Val); ok && v.T == "B" {
				return b
			}
			return a
		}})
	mk := func(name string) *Object {
		return NewObject(ObjectConfig{Name: name, Interfaces: []*Interface{node}, Fields: FieldsThunk(func() Fields {
			return Fields{
				"id": &Field{Type: String, Resolve: func(p ResolveParams) (interface{}, error) { return name, nil }},
				"c":  &Field{Type: color, Resolve: func(p ResolveParams) (interface{}, error) { return 1, nil }},
				// covariant: the implementers narrow next to the other object type, which
				// makes NewSchema pre-fill the possible-type table for Node
				"next": &Field{Type: zzC07Other(name, &a, &b), Resolve: func(p ResolveParams) (interface{}, error) {
					if name == "A" {
						return zzC07Val{"B"}, nil
					}
					return zzC07Val{"A"}, nil
				}},
			}
		})})
	}
	a, b = mk("A"), mk("B")
	uni := NewUnion(UnionConfig{Name: "U", Types: []*Object{a, b}, ResolveType: func(p ResolveTypeParams) *Object { return b }})
	q := NewObject(ObjectConfig{Name: "Query", Fields: Fields{
		"c":    &Field{Type: color, Args: FieldConfigArgument{"in": &ArgumentConfig{Type: color}}, Resolve: func(p ResolveParams) (interface{}, error) { return p.Args["in"], nil }},
		"node": &Field{Type: node, Resolve: func(p ResolveParams) (interface{}, error) { return zzC07Val{"A"}, nil }},
		"u":    &Field{Type: uni, Resolve: func(p ResolveParams) (interface{}, error) { return zzC07Val{"B"}, nil }},
	}})
	s, err := NewSchema(SchemaConfig{Query: q, Types: []Type{a, b}})
	if err != nil {
		panic(err)
	}
	return s
}

var zzC07Queries = []string{
	"{ c(in: GREEN) }",
	"{ node { id ... on A { c next { id ... on B { c next { id } } } } } }",
	"{ u { ... on B { id c } } node { ... on A { id } } }",
	"{ __type(name:\"Node\"){ possibleTypes{name} } c(in: RED) }",
	"query($v:Boolean!){ c(in: GREEN) @skip(if:$v) node @include(if:$v){ id ... on A @skip(if:$v){ c } } }",
	"query($v:Boolean!){ ...F @include(if:$v) u{ ... on B{ id } } } fragment F on Query{ c(in: RED) node{ id } }",
	"{ c(in: RED) }", // same normalised key as query 0, other literal
}

// zzC07Vars: the variables of request i (the two requests may differ in them).
func zzC07Vars(q, tag string) map[string]interface{} {
	if !zzContains(q, "$v") {
		return nil
	}
	return map[string]interface{}{"v": zzChoice("v"+tag, 2) == 1}
}

func zzC07Merge(a, b map[string]interface{}) map[string]interface{} {
	out := map[string]interface{}{}
	for k, v := range a {
		out[k] = v
	}
	for k, v := range b {
		out[k] = v
	}
	return out
}

// ZZ_C07_concurrent: two goroutines use one cold schema (or one prepared plan,
// or one plan cache) at once. No pair of accesses to library state may be
// unordered by synchronisation (happens-before analysis over the explored
// schedules), nothing panics or deadlocks, and each response equals the
// response of the same request run alone.
func ZZ_C07_concurrent() {
	// 0 Do on a cold schema, 1 shared prepared plan, 2 shared cold plan cache,
	// 3 shared plan cache already holding the plan of request 1 (concurrent hits)
	scenario := zzChoice("scenario", 4)
	if only := zzParam("SCEN", -1); only >= 0 {
		zzAssume(scenario == only)
	}
	// QSET=1 restricts the requests to two representative ones (nested abstract
	// fields; variable-driven directives) so that a deeper schedule bound stays tractable
	pool := zzC07Queries
	if zzParam("QSET", 0) == 1 {
		pool = []string{zzC07Queries[1], zzC07Queries[4]}
	}
	q1 := pool[zzChoice("q1", len(pool))]
	q2 := q1
	if scenario != 1 { // the shared plan is planned for q1 and executed twice
		q2 = pool[zzChoice("q2", len(pool))]
	}
	// sequential baselines on a separate schema (the shared one must stay cold)
	bs := zzC07Schema()
	vars := []map[string]interface{}{zzC07Vars(q1, "1"), zzC07Vars(q2, "2")}
	want1 := Do(Params{Schema: bs, RequestString: q1, VariableValues: vars[0]})
	want2 := Do(Params{Schema: bs, RequestString: q2, VariableValues: vars[1]})
	schema := zzC07Schema()
	var plan *Plan
	var cache *PlanCache
	switch scenario {
	case 1:
		doc := zzParse(q1)
		plan, _ = PlanQuery(&schema, doc, "")
		vars[1] = zzC07Vars(q1, "2b") // the same plan, possibly other variable values
		want2 = Do(Params{Schema: bs, RequestString: q1, VariableValues: vars[1]})
	case 2, 3:
		cache = NewPlanCache(PlanCacheOptions{MaxEntries: 1, Normalize: zzChoice("normalize", 2) == 1})
		if scenario == 3 {
			cache.Get(&schema, q1, "")
		}
	}
	results := make([]*Result, 2)
	run := func(i int, q string) {
		switch scenario {
		case 0:
			results[i] = Do(Params{Schema: schema, RequestString: q, VariableValues: vars[i]})
		case 1:
			results[i] = ExecutePlan(plan, ExecuteParams{Schema: schema, Args: vars[i]})
		case 2, 3:
			pr := cache.Get(&schema, q, "")
			if pr.Plan != nil {
				results[i] = ExecutePlan(pr.Plan, ExecuteParams{Schema: schema, Args: zzC07Merge(vars[i], pr.SynthArgs)})
			} else {
				results[i] = &Result{Errors: pr.Errors}
			}
			if i == 1 && scenario == 2 {
				cache.Reset()
			}
		}
	}
	zzRace(true)
	zzSched(true, zzParam("P", 1))
	var wg sync.WaitGroup
	wg.Add(2)
	go func() { defer wg.Done(); run(0, q1) }()
	go func() { defer wg.Done(); run(1, q2) }()
	wg.Wait()
	zzSched(false, 0)
	zzRace(false)
	zzAssert(results[0] != nil && results[1] != nil, "a request did not complete")
	if !zzSameResult(results[0], want1) {
		msg := ""
		if len(results[0].Errors) > 0 {
			msg = results[0].Errors[0].Message
		}
		zzFail("concurrent response differs from the sequential one (request 1): errors=" + zzItoa(len(results[0].Errors)) + " " + msg)
	}
	zzAssert(zzSameResult(results[1], want2), "concurrent response differs from the sequential one (request 2)")
	zzCover("end")
}

// ZZ_C07_deep: the same harness under a deeper schedule bound on the restricted request set.
func ZZ_C07_deep() { ZZ_C07_concurrent() }

// ZZ_C07_deep_cache: likewise for the warm plan cache.
func ZZ_C07_deep_cache() { ZZ_C07_concurrent() }

// ZZ_C07_sequential_plan: control: one shared plan executed twice, one after the other.
func ZZ_C07_sequential_plan() {
	q1 := zzC07Queries[zzChoice("q1", len(zzC07Queries))]
	bs := zzC07Schema()
	want := Do(Params{Schema: bs, RequestString: q1})
	schema := zzC07Schema()
	plan, _ := PlanQuery(&schema, zzParse(q1), "")
	r1 := ExecutePlan(plan, ExecuteParams{Schema: schema})
	r2 := ExecutePlan(plan, ExecuteParams{Schema: schema})
	if !zzSameResult(r1, want) {
		zzFail("first sequential execution of the plan differs from Do: plan=" + fmt.Sprint(r1.Data) + " do=" + fmt.Sprint(want.Data))
	}
	zzAssert(zzSameResult(r2, want), "second sequential execution of the plan differs from Do")
	zzCover("end")
}

func zzC07Other(name string, a, b **Object) Output {
	if name == "A" {
		return *b
	}
	return *a
}

// ZZ_C07_reset: two requests for the same document go through one cold plan
// cache while a third goroutine resets the cache: every schedule (P forced
// preemptions) ends with both requests answered as if alone, no goroutine left
// waiting for the other's build, no data race.
func ZZ_C07_reset() {
	q := zzC07Queries[0]
	bs := zzC07Schema()
	want := Do(Params{Schema: bs, RequestString: q})
	schema := zzC07Schema()
	cache := NewPlanCache(PlanCacheOptions{MaxEntries: 2, Normalize: zzChoice("normalize", 2) == 1})
	results := make([]*Result, 2)
	run := func(i int) {
		pr := cache.Get(&schema, q, "")
		if pr.Plan != nil {
			results[i] = ExecutePlan(pr.Plan, ExecuteParams{Schema: schema, Args: pr.SynthArgs})
		} else {
			results[i] = &Result{Errors: pr.Errors}
		}
	}
	zzRace(true)
	zzSched(true, zzParam("P", 1))
	var wg sync.WaitGroup
	wg.Add(3)
	go func() { defer wg.Done(); run(0) }()
	go func() { defer wg.Done(); run(1) }()
	go func() { defer wg.Done(); cache.Reset() }()
	wg.Wait()
	zzSched(false, 0)
	zzRace(false)
	zzAssert(results[0] != nil && results[1] != nil, "a request did not complete")
	zzAssert(zzSameResult(results[0], want) && zzSameResult(results[1], want), "a response differs from the sequential one")
	zzCover("end")
}
