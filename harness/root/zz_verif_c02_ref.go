package graphql

import (
	"github.com/graphql-go/graphql/language/ast"
)

// ---------------------------------------------------------------------------
// Reference validator: one brute-force predicate per rule over the zoo table
// and the parsed document, written without looking at rules.go. Each predicate
// answers "does the document violate this rule?".

type zzRefVal struct {
	doc    *ast.Document
	ops    []*ast.OperationDefinition
	frags  map[string]*ast.FragmentDefinition
	fragL  []*ast.FragmentDefinition
	others int // type-system definitions
}

func zzNewRefVal(doc *ast.Document) *zzRefVal {
	v := &zzRefVal{doc: doc, frags: map[string]*ast.FragmentDefinition{}}
	for _, d := range doc.Definitions {
		switch x := d.(type) {
		case *ast.OperationDefinition:
			v.ops = append(v.ops, x)
		case *ast.FragmentDefinition:
			v.fragL = append(v.fragL, x)
			if _, dup := v.frags[x.Name.Value]; !dup {
				v.frags[x.Name.Value] = x
			}
		default:
			v.others++
		}
	}
	return v
}

var zzScalarNames = []string{"String", "Int", "Boolean"}
var zzEnumNames = []string{"Color"}
var zzInputNames = []string{"In"}
var zzIntrospectionNames = []string{"__Schema", "__Type", "__TypeKind", "__Field", "__InputValue", "__EnumValue", "__Directive", "__DirectiveLocation"}

func zzIn(list []string, s string) bool {
	for _, x := range list {
		if x == s {
			return true
		}
	}
	return false
}

func zzKnownType(name string) bool {
	return zzTypeSpecOf(name) != nil || zzIn(zzScalarNames, name) || zzIn(zzEnumNames, name) || zzIn(zzInputNames, name) || zzIn(zzIntrospectionNames, name)
}

func zzIsComposite(name string) bool {
	return zzTypeSpecOf(name) != nil || zzIn(zzIntrospectionNames[:1], name) || name == "__Type" || name == "__Field" || name == "__InputValue" || name == "__EnumValue" || name == "__Directive"
}

func zzIsInputTypeName(name string) bool {
	return zzIn(zzScalarNames, name) || zzIn(zzEnumNames, name) || zzIn(zzInputNames, name) || name == "__TypeKind" || name == "__DirectiveLocation"
}

func zzNamedOfAST(t ast.Type) string {
	for {
		switch x := t.(type) {
		case *ast.NonNull:
			t = x.Type
		case *ast.List:
			t = x.Type
		case *ast.Named:
			return x.Name.Value
		default:
			return ""
		}
	}
}

func zzRootOf(op *ast.OperationDefinition) string {
	switch op.Operation {
	case "mutation":
		return "Mutation"
	case "subscription":
		return ""
	}
	return "Query"
}

// visitSel walks a selection set with the parent type name ("" when unknown).
type zzSelVisitor struct {
	field    func(parent string, f *ast.Field)
	inline   func(parent string, f *ast.InlineFragment)
	spread   func(parent string, s *ast.FragmentSpread)
}

func zzFieldType(parent string, name string) (string, *zzFieldSpec) {
	if name == "__typename" {
		return "String", nil
	}
	if parent == "Query" && name == "__schema" {
		return "__Schema", nil
	}
	if parent == "Query" && name == "__type" {
		return "__Type", nil
	}
	ts := zzTypeSpecOf(parent)
	if ts == nil {
		return "", nil
	}
	fs := zzFieldSpecOf(ts, name)
	if fs == nil {
		return "", nil
	}
	return fs.typ, fs
}

func (v *zzRefVal) walkSel(ss *ast.SelectionSet, parent string, vis *zzSelVisitor) {
	if ss == nil {
		return
	}
	for _, sel := range ss.Selections {
		switch x := sel.(type) {
		case *ast.Field:
			if vis.field != nil {
				vis.field(parent, x)
			}
			t, _ := zzFieldType(parent, x.Name.Value)
			v.walkSel(x.SelectionSet, t, vis)
		case *ast.InlineFragment:
			if vis.inline != nil {
				vis.inline(parent, x)
			}
			p := parent
			if x.TypeCondition != nil {
				p = x.TypeCondition.Name.Value
				if !zzKnownType(p) {
					p = ""
				}
			}
			v.walkSel(x.SelectionSet, p, vis)
		case *ast.FragmentSpread:
			if vis.spread != nil {
				vis.spread(parent, x)
			}
		}
	}
}

// walkAll visits every operation and every fragment definition.
func (v *zzRefVal) walkAll(vis *zzSelVisitor) {
	for _, op := range v.ops {
		v.walkSel(op.SelectionSet, zzRootOf(op), vis)
	}
	for _, f := range v.fragL {
		p := f.TypeCondition.Name.Value
		if !zzKnownType(p) {
			p = ""
		}
		v.walkSel(f.SelectionSet, p, vis)
	}
}

// ---- simple rules

func (v *zzRefVal) knownTypeNames() bool {
	bad := false
	for _, op := range v.ops {
		for _, vd := range op.VariableDefinitions {
			if n := zzNamedOfAST(vd.Type); n != "" && !zzKnownType(n) {
				bad = true
			}
		}
	}
	for _, f := range v.fragL {
		if !zzKnownType(f.TypeCondition.Name.Value) {
			bad = true
		}
	}
	v.walkAll(&zzSelVisitor{inline: func(parent string, f *ast.InlineFragment) {
		if f.TypeCondition != nil && !zzKnownType(f.TypeCondition.Name.Value) {
			bad = true
		}
	}})
	return bad
}

func (v *zzRefVal) fragmentsOnCompositeTypes() bool {
	bad := false
	for _, f := range v.fragL {
		n := f.TypeCondition.Name.Value
		if zzKnownType(n) && !zzIsComposite(n) {
			bad = true
		}
	}
	v.walkAll(&zzSelVisitor{inline: func(parent string, f *ast.InlineFragment) {
		if f.TypeCondition != nil {
			n := f.TypeCondition.Name.Value
			if zzKnownType(n) && !zzIsComposite(n) {
				bad = true
			}
		}
	}})
	return bad
}

func (v *zzRefVal) fieldsOnCorrectType() bool {
	bad := false
	v.walkAll(&zzSelVisitor{field: func(parent string, f *ast.Field) {
		if parent == "" || !zzIsComposite(parent) || zzTypeSpecOf(parent) == nil {
			return
		}
		if t, _ := zzFieldType(parent, f.Name.Value); t == "" {
			bad = true
		}
	}})
	return bad
}

func (v *zzRefVal) scalarLeafs() bool {
	bad := false
	v.walkAll(&zzSelVisitor{field: func(parent string, f *ast.Field) {
		t, _ := zzFieldType(parent, f.Name.Value)
		if t == "" {
			return
		}
		leaf := zzIsLeafType(t) || zzIn(zzEnumNames, t)
		if leaf && f.SelectionSet != nil {
			bad = true
		}
		if !leaf && f.SelectionSet == nil {
			bad = true
		}
	}})
	return bad
}

type zzDirSpec struct {
	name string
	args []string
	req  []string
	locs []string
}

var zzDirs = []zzDirSpec{
	{"skip", []string{"if"}, []string{"if"}, []string{"FIELD", "FRAGMENT_SPREAD", "INLINE_FRAGMENT"}},
	{"include", []string{"if"}, []string{"if"}, []string{"FIELD", "FRAGMENT_SPREAD", "INLINE_FRAGMENT"}},
	{"deprecated", []string{"reason"}, nil, []string{"FIELD_DEFINITION", "ENUM_VALUE"}},
	{"onop", nil, nil, []string{"QUERY", "MUTATION", "SUBSCRIPTION", "FRAGMENT_DEFINITION"}},
}

func zzDirSpecOf(name string) *zzDirSpec {
	for i := range zzDirs {
		if zzDirs[i].name == name {
			return &zzDirs[i]
		}
	}
	return nil
}

// eachDirective calls fn(location, directive) for every directive of executable definitions.
func (v *zzRefVal) eachDirective(fn func(loc string, d *ast.Directive)) {
	for _, op := range v.ops {
		loc := "QUERY"
		if op.Operation == "mutation" {
			loc = "MUTATION"
		} else if op.Operation == "subscription" {
			loc = "SUBSCRIPTION"
		}
		for _, d := range op.Directives {
			fn(loc, d)
		}
	}
	for _, f := range v.fragL {
		for _, d := range f.Directives {
			fn("FRAGMENT_DEFINITION", d)
		}
	}
	v.walkAll(&zzSelVisitor{
		field: func(parent string, f *ast.Field) {
			for _, d := range f.Directives {
				fn("FIELD", d)
			}
		},
		inline: func(parent string, f *ast.InlineFragment) {
			for _, d := range f.Directives {
				fn("INLINE_FRAGMENT", d)
			}
		},
		spread: func(parent string, s *ast.FragmentSpread) {
			for _, d := range s.Directives {
				fn("FRAGMENT_SPREAD", d)
			}
		},
	})
}

func (v *zzRefVal) knownDirectives() bool {
	bad := false
	v.eachDirective(func(loc string, d *ast.Directive) {
		ds := zzDirSpecOf(d.Name.Value)
		if ds == nil || !zzIn(ds.locs, loc) {
			bad = true
		}
	})
	return bad
}

func (v *zzRefVal) knownArgumentNames() bool {
	bad := false
	v.walkAll(&zzSelVisitor{field: func(parent string, f *ast.Field) {
		t, fs := zzFieldType(parent, f.Name.Value)
		if t == "" {
			return
		}
		for _, a := range f.Arguments {
			ok := false
			if fs != nil {
				for _, as := range fs.args {
					if as.name == a.Name.Value {
						ok = true
					}
				}
			} else if f.Name.Value == "__type" && a.Name.Value == "name" {
				ok = true
			}
			if !ok {
				bad = true
			}
		}
	}})
	v.eachDirective(func(loc string, d *ast.Directive) {
		ds := zzDirSpecOf(d.Name.Value)
		if ds == nil {
			return
		}
		for _, a := range d.Arguments {
			if !zzIn(ds.args, a.Name.Value) {
				bad = true
			}
		}
	})
	return bad
}

func (v *zzRefVal) providedNonNullArguments() bool {
	bad := false
	v.walkAll(&zzSelVisitor{field: func(parent string, f *ast.Field) {
		_, fs := zzFieldType(parent, f.Name.Value)
		if fs == nil {
			if parent == "Query" && f.Name.Value == "__type" {
				found := false
				for _, a := range f.Arguments {
					if a.Name.Value == "name" {
						found = true
					}
				}
				if !found {
					bad = true
				}
			}
			return
		}
		for _, as := range fs.args {
			if !as.nonNull {
				continue
			}
			found := false
			for _, a := range f.Arguments {
				if a.Name.Value == as.name {
					found = true
				}
			}
			if !found {
				bad = true
			}
		}
	}})
	v.eachDirective(func(loc string, d *ast.Directive) {
		ds := zzDirSpecOf(d.Name.Value)
		if ds == nil {
			return
		}
		for _, r := range ds.req {
			found := false
			for _, a := range d.Arguments {
				if a.Name.Value == r {
					found = true
				}
			}
			if !found {
				bad = true
			}
		}
	})
	return bad
}

func (v *zzRefVal) knownFragmentNames() bool {
	bad := false
	v.walkAll(&zzSelVisitor{spread: func(parent string, s *ast.FragmentSpread) {
		if v.frags[s.Name.Value] == nil {
			bad = true
		}
	}})
	return bad
}

func (v *zzRefVal) spreadsOf(ss *ast.SelectionSet, out *[]string) {
	if ss == nil {
		return
	}
	for _, sel := range ss.Selections {
		switch x := sel.(type) {
		case *ast.Field:
			v.spreadsOf(x.SelectionSet, out)
		case *ast.InlineFragment:
			v.spreadsOf(x.SelectionSet, out)
		case *ast.FragmentSpread:
			*out = append(*out, x.Name.Value)
		}
	}
}

// reachable returns the fragments reachable from a selection set.
func (v *zzRefVal) reachable(ss *ast.SelectionSet) map[string]bool {
	seen := map[string]bool{}
	var todo []string
	v.spreadsOf(ss, &todo)
	for len(todo) > 0 {
		n := todo[0]
		todo = todo[1:]
		if seen[n] {
			continue
		}
		seen[n] = true
		if f := v.frags[n]; f != nil {
			v.spreadsOf(f.SelectionSet, &todo)
		}
	}
	return seen
}

func (v *zzRefVal) noUnusedFragments() bool {
	used := map[string]bool{}
	for _, op := range v.ops {
		for n := range v.reachable(op.SelectionSet) {
			used[n] = true
		}
	}
	for _, f := range v.fragL {
		if !used[f.Name.Value] {
			return true
		}
	}
	return false
}

func (v *zzRefVal) noFragmentCycles() bool {
	for _, f := range v.fragL {
		if v.reachable(f.SelectionSet)[f.Name.Value] {
			return true
		}
	}
	return false
}

func (v *zzRefVal) uniqueFragmentNames() bool {
	seen := map[string]bool{}
	for _, f := range v.fragL {
		if seen[f.Name.Value] {
			return true
		}
		seen[f.Name.Value] = true
	}
	return false
}

func (v *zzRefVal) uniqueOperationNames() bool {
	seen := map[string]bool{}
	for _, op := range v.ops {
		// the repository's tests pin that several anonymous operations count as a
		// clash of the empty name (TestValidate_UniqueOperationNames_MultipleAnonymousOperations)
		name := ""
		if op.Name != nil {
			name = op.Name.Value
		}
		if seen[name] {
			return true
		}
		seen[name] = true
	}
	return false
}

func (v *zzRefVal) loneAnonymousOperation() bool {
	for _, op := range v.ops {
		if op.Name == nil && len(v.ops) > 1 {
			return true
		}
	}
	return false
}

func (v *zzRefVal) uniqueVariableNames() bool {
	for _, op := range v.ops {
		seen := map[string]bool{}
		for _, vd := range op.VariableDefinitions {
			if seen[vd.Variable.Name.Value] {
				return true
			}
			seen[vd.Variable.Name.Value] = true
		}
	}
	return false
}

func (v *zzRefVal) uniqueArgumentNames() bool {
	bad := false
	dup := func(args []*ast.Argument) {
		seen := map[string]bool{}
		for _, a := range args {
			if seen[a.Name.Value] {
				bad = true
			}
			seen[a.Name.Value] = true
		}
	}
	v.walkAll(&zzSelVisitor{field: func(parent string, f *ast.Field) { dup(f.Arguments) }})
	v.eachDirective(func(loc string, d *ast.Directive) { dup(d.Arguments) })
	return bad
}

func zzEachValue(val ast.Value, fn func(ast.Value)) {
	if val == nil {
		return
	}
	fn(val)
	switch x := val.(type) {
	case *ast.ListValue:
		for _, e := range x.Values {
			zzEachValue(e, fn)
		}
	case *ast.ObjectValue:
		for _, f := range x.Fields {
			zzEachValue(f.Value, fn)
		}
	}
}

// eachArgValue visits every argument value (fields and directives) of a selection set, following nothing.
func (v *zzRefVal) eachValueIn(ss *ast.SelectionSet, fn func(ast.Value)) {
	if ss == nil {
		return
	}
	dirs := func(ds []*ast.Directive) {
		for _, d := range ds {
			for _, a := range d.Arguments {
				zzEachValue(a.Value, fn)
			}
		}
	}
	for _, sel := range ss.Selections {
		switch x := sel.(type) {
		case *ast.Field:
			for _, a := range x.Arguments {
				zzEachValue(a.Value, fn)
			}
			dirs(x.Directives)
			v.eachValueIn(x.SelectionSet, fn)
		case *ast.InlineFragment:
			dirs(x.Directives)
			v.eachValueIn(x.SelectionSet, fn)
		case *ast.FragmentSpread:
			dirs(x.Directives)
		}
	}
}

func (v *zzRefVal) uniqueInputFieldNames() bool {
	bad := false
	check := func(val ast.Value) {
		if ov, ok := val.(*ast.ObjectValue); ok {
			seen := map[string]bool{}
			for _, f := range ov.Fields {
				if seen[f.Name.Value] {
					bad = true
				}
				seen[f.Name.Value] = true
			}
		}
	}
	for _, op := range v.ops {
		v.eachValueIn(op.SelectionSet, check)
		for _, vd := range op.VariableDefinitions {
			zzEachValue(vd.DefaultValue, check)
		}
	}
	for _, f := range v.fragL {
		v.eachValueIn(f.SelectionSet, check)
	}
	return bad
}

// variable usages of an operation: in its own selection set, its directives and all reachable fragments
func (v *zzRefVal) usedVars(op *ast.OperationDefinition) map[string]bool {
	used := map[string]bool{}
	note := func(val ast.Value) {
		if x, ok := val.(*ast.Variable); ok {
			used[x.Name.Value] = true
		}
	}
	v.eachValueIn(op.SelectionSet, note)
	for _, d := range op.Directives {
		for _, a := range d.Arguments {
			zzEachValue(a.Value, note)
		}
	}
	for n := range v.reachable(op.SelectionSet) {
		if f := v.frags[n]; f != nil {
			v.eachValueIn(f.SelectionSet, note)
			for _, d := range f.Directives {
				for _, a := range d.Arguments {
					zzEachValue(a.Value, note)
				}
			}
		}
	}
	return used
}

func (v *zzRefVal) noUndefinedVariables() bool {
	for _, op := range v.ops {
		def := map[string]bool{}
		for _, vd := range op.VariableDefinitions {
			def[vd.Variable.Name.Value] = true
		}
		for u := range v.usedVars(op) {
			if !def[u] {
				return true
			}
		}
	}
	return false
}

func (v *zzRefVal) noUnusedVariables() bool {
	for _, op := range v.ops {
		used := v.usedVars(op)
		for _, vd := range op.VariableDefinitions {
			if !used[vd.Variable.Name.Value] {
				return true
			}
		}
	}
	return false
}

func (v *zzRefVal) variablesAreInputTypes() bool {
	for _, op := range v.ops {
		for _, vd := range op.VariableDefinitions {
			n := zzNamedOfAST(vd.Type)
			if zzKnownType(n) && !zzIsInputTypeName(n) {
				return true
			}
		}
	}
	return false
}

func zzPossibleObjects(t string) []string {
	ts := zzTypeSpecOf(t)
	if ts == nil {
		return nil
	}
	if ts.kind == "object" {
		return []string{t}
	}
	var out []string
	for i := range zzZooTypes {
		if zzZooTypes[i].kind == "object" && zzIn(zzZooTypes[i].implOf, t) {
			out = append(out, zzZooTypes[i].name)
		}
	}
	return out
}

func zzTypesOverlap(a, b string) bool {
	for _, x := range zzPossibleObjects(a) {
		for _, y := range zzPossibleObjects(b) {
			if x == y {
				return true
			}
		}
	}
	return false
}

func (v *zzRefVal) possibleFragmentSpreads() bool {
	bad := false
	v.walkAll(&zzSelVisitor{
		inline: func(parent string, f *ast.InlineFragment) {
			if f.TypeCondition == nil || zzTypeSpecOf(parent) == nil {
				return
			}
			c := f.TypeCondition.Name.Value
			if zzTypeSpecOf(c) != nil && !zzTypesOverlap(parent, c) {
				bad = true
			}
			// a known non-composite type condition has no possible types at all
			// (the spec's applicableTypes is empty); graphql-go reports it here too
			if zzTypeSpecOf(c) == nil && zzKnownType(c) && !zzIsComposite(c) {
				bad = true
			}
		},
		spread: func(parent string, s *ast.FragmentSpread) {
			fd := v.frags[s.Name.Value]
			if fd == nil || zzTypeSpecOf(parent) == nil {
				return
			}
			c := fd.TypeCondition.Name.Value
			if zzTypeSpecOf(c) != nil && !zzTypesOverlap(parent, c) {
				bad = true
			}
			if zzTypeSpecOf(c) == nil && zzKnownType(c) && !zzIsComposite(c) {
				bad = true
			}
		},
	})
	return bad
}

// ---- literal validity (ArgumentsOfCorrectType, DefaultValuesOfCorrectType)

type zzTy struct {
	name    string
	list    bool
	nonNull bool // of the outermost wrapper
	elemNN  bool
}

var zzInFields = map[string]zzTy{"a": {name: "Int"}, "b": {name: "String", nonNull: true}, "c": {name: "Int"}, "d": {name: "Color"}, "n": {name: "In"}}

// zzLiteralOK: is the literal acceptable for named type `name` (not a list)?
func zzLiteralNamedOK(val ast.Value, name string) bool {
	if _, isVar := val.(*ast.Variable); isVar {
		return true
	}
	switch name {
	case "Int":
		iv, ok := val.(*ast.IntValue)
		if !ok {
			return false
		}
		// 32-bit range
		s := iv.Value
		neg := false
		if len(s) > 0 && s[0] == '-' {
			neg = true
			s = s[1:]
		}
		if len(s) > 10 {
			return false
		}
		n := int64(0)
		for i := 0; i < len(s); i++ {
			n = n*10 + int64(s[i]-'0')
		}
		if neg {
			n = -n
		}
		return n >= -2147483648 && n <= 2147483647
	case "String":
		_, ok := val.(*ast.StringValue)
		return ok
	case "Boolean":
		_, ok := val.(*ast.BooleanValue)
		return ok
	case "Color":
		ev, ok := val.(*ast.EnumValue)
		return ok && (ev.Value == "RED" || ev.Value == "GREEN" || ev.Value == "BLUE")
	case "In":
		ov, ok := val.(*ast.ObjectValue)
		if !ok {
			return false
		}
		seen := map[string]ast.Value{}
		for _, f := range ov.Fields {
			ft, known := zzInFields[f.Name.Value]
			if !known {
				return false
			}
			seen[f.Name.Value] = f.Value
			if !zzLiteralOK(f.Value, ft) {
				return false
			}
		}
		for fname, ft := range zzInFields {
			if ft.nonNull && seen[fname] == nil {
				return false
			}
		}
		return true
	}
	return true
}

func zzLiteralOK(val ast.Value, t zzTy) bool {
	if val == nil {
		return !t.nonNull
	}
	if _, isVar := val.(*ast.Variable); isVar {
		return true
	}
	if t.list {
		if lv, ok := val.(*ast.ListValue); ok {
			for _, e := range lv.Values {
				if !zzLiteralOK(e, zzTy{name: t.name, nonNull: t.elemNN}) {
					return false
				}
			}
			return true
		}
		return zzLiteralOK(val, zzTy{name: t.name, nonNull: t.elemNN})
	}
	return zzLiteralNamedOK(val, t.name)
}

func zzArgTy(a *zzArgSpec) zzTy {
	return zzTy{name: a.typ, list: a.list, nonNull: a.nonNull}
}

func (v *zzRefVal) argumentsOfCorrectType() bool {
	bad := false
	v.walkAll(&zzSelVisitor{field: func(parent string, f *ast.Field) {
		_, fs := zzFieldType(parent, f.Name.Value)
		if fs == nil {
			if parent == "Query" && f.Name.Value == "__type" {
				for _, a := range f.Arguments {
					if a.Name.Value == "name" && !zzLiteralOK(a.Value, zzTy{name: "String", nonNull: true}) {
						bad = true
					}
				}
			}
			return
		}
		for _, a := range f.Arguments {
			for i := range fs.args {
				if fs.args[i].name == a.Name.Value && !zzLiteralOK(a.Value, zzArgTy(&fs.args[i])) {
					bad = true
				}
			}
		}
	}})
	v.eachDirective(func(loc string, d *ast.Directive) {
		ds := zzDirSpecOf(d.Name.Value)
		if ds == nil {
			return
		}
		for _, a := range d.Arguments {
			if a.Name.Value == "if" && (ds.name == "skip" || ds.name == "include") && !zzLiteralOK(a.Value, zzTy{name: "Boolean", nonNull: true}) {
				bad = true
			}
			if a.Name.Value == "reason" && ds.name == "deprecated" && !zzLiteralOK(a.Value, zzTy{name: "String"}) {
				bad = true
			}
		}
	})
	return bad
}

func zzTyOfAST(t ast.Type) (zzTy, bool) {
	out := zzTy{}
	if nn, ok := t.(*ast.NonNull); ok {
		out.nonNull = true
		t = nn.Type
	}
	if l, ok := t.(*ast.List); ok {
		out.list = true
		t = l.Type
		if nn, ok := t.(*ast.NonNull); ok {
			out.elemNN = true
			t = nn.Type
		}
	}
	n, ok := t.(*ast.Named)
	if !ok {
		return out, false // deeper nesting: outside the reference
	}
	out.name = n.Name.Value
	return out, true
}

func (v *zzRefVal) defaultValuesOfCorrectType() bool {
	for _, op := range v.ops {
		for _, vd := range op.VariableDefinitions {
			if vd.DefaultValue == nil {
				continue
			}
			ty, ok := zzTyOfAST(vd.Type)
			if !ok || !zzKnownType(ty.name) || !zzIsInputTypeName(ty.name) {
				continue
			}
			if ty.nonNull {
				return true // a non-null variable cannot have a default
			}
			if !zzLiteralOK(vd.DefaultValue, ty) {
				return true
			}
		}
	}
	return false
}

// ---- VariablesInAllowedPosition

func zzTySub(varT zzTy, hasDefault bool, loc zzTy) bool {
	// effective variable type: a default makes a nullable variable usable in a non-null position
	if hasDefault && !varT.nonNull {
		varT.nonNull = true
	}
	if loc.nonNull && !varT.nonNull {
		return false
	}
	if loc.list != varT.list {
		return false
	}
	if loc.list && loc.elemNN && !varT.elemNN {
		return false
	}
	return varT.name == loc.name
}

func (v *zzRefVal) variablesInAllowedPosition() bool {
	for _, op := range v.ops {
		defs := map[string]*ast.VariableDefinition{}
		for _, vd := range op.VariableDefinitions {
			defs[vd.Variable.Name.Value] = vd
		}
		bad := false
		check := func(val ast.Value, loc zzTy) {
			x, ok := val.(*ast.Variable)
			if !ok {
				return
			}
			vd := defs[x.Name.Value]
			if vd == nil {
				return
			}
			vt, ok := zzTyOfAST(vd.Type)
			if !ok || !zzKnownType(vt.name) {
				return
			}
			if !zzTySub(vt, vd.DefaultValue != nil, loc) {
				bad = true
			}
		}
		var walk func(ss *ast.SelectionSet, parent string)
		dirs := func(ds []*ast.Directive) {
			for _, d := range ds {
				if d.Name.Value == "skip" || d.Name.Value == "include" {
					for _, a := range d.Arguments {
						if a.Name.Value == "if" {
							check(a.Value, zzTy{name: "Boolean", nonNull: true})
						}
					}
				}
			}
		}
		walk = func(ss *ast.SelectionSet, parent string) {
			if ss == nil {
				return
			}
			for _, sel := range ss.Selections {
				switch x := sel.(type) {
				case *ast.Field:
					t, fs := zzFieldType(parent, x.Name.Value)
					if fs != nil {
						for _, a := range x.Arguments {
							for i := range fs.args {
								if fs.args[i].name == a.Name.Value {
									// the value and every variable nested in its list / object literals, at any depth
									var deep func(val ast.Value, ty zzTy)
									deep = func(val ast.Value, ty zzTy) {
										check(val, ty)
										if lv, ok := val.(*ast.ListValue); ok && ty.list {
											for _, e := range lv.Values {
												deep(e, zzTy{name: ty.name, nonNull: ty.elemNN})
											}
										}
										if ov, ok := val.(*ast.ObjectValue); ok && ty.name == "In" && !ty.list {
											for _, of := range ov.Fields {
												if ft, known := zzInFields[of.Name.Value]; known {
													deep(of.Value, ft)
												}
											}
										}
									}
									deep(a.Value, zzArgTy(&fs.args[i]))
								}
							}
						}
					}
					dirs(x.Directives)
					walk(x.SelectionSet, t)
				case *ast.InlineFragment:
					dirs(x.Directives)
					p := parent
					if x.TypeCondition != nil {
						p = x.TypeCondition.Name.Value
					}
					walk(x.SelectionSet, p)
				case *ast.FragmentSpread:
					dirs(x.Directives)
				}
			}
		}
		walk(op.SelectionSet, zzRootOf(op))
		for n := range v.reachable(op.SelectionSet) {
			if f := v.frags[n]; f != nil {
				walk(f.SelectionSet, f.TypeCondition.Name.Value)
			}
		}
		if bad {
			return true
		}
	}
	return false
}

// ---- OverlappingFieldsCanBeMerged (brute force over expanded fragments)

type zzFld struct {
	parent string
	f      *ast.Field
}

type zzSet struct {
	ss     *ast.SelectionSet
	parent string
}

func (v *zzRefVal) collectFlds(ss *ast.SelectionSet, parent string, visited map[string]bool, out *[]zzFld) {
	if ss == nil {
		return
	}
	for _, sel := range ss.Selections {
		switch x := sel.(type) {
		case *ast.Field:
			*out = append(*out, zzFld{parent, x})
		case *ast.InlineFragment:
			p := parent
			if x.TypeCondition != nil {
				p = x.TypeCondition.Name.Value
			}
			v.collectFlds(x.SelectionSet, p, visited, out)
		case *ast.FragmentSpread:
			if visited[x.Name.Value] {
				continue
			}
			visited[x.Name.Value] = true
			if fd := v.frags[x.Name.Value]; fd != nil {
				v.collectFlds(fd.SelectionSet, fd.TypeCondition.Name.Value, visited, out)
			}
		}
	}
}

func zzValueText(val ast.Value) string {
	switch x := val.(type) {
	case nil:
		return "<nil>"
	case *ast.Variable:
		return "$" + x.Name.Value
	case *ast.IntValue:
		return "i" + x.Value
	case *ast.FloatValue:
		return "f" + x.Value
	case *ast.StringValue:
		return "s" + zzItoa(len(x.Value)) + ":" + x.Value
	case *ast.BooleanValue:
		if x.Value {
			return "true"
		}
		return "false"
	case *ast.EnumValue:
		return "e" + x.Value
	case *ast.ListValue:
		s := "["
		for _, e := range x.Values {
			s += zzValueText(e) + ","
		}
		return s + "]"
	case *ast.ObjectValue:
		s := "{"
		for _, f := range x.Fields {
			s += f.Name.Value + ":" + zzValueText(f.Value) + ","
		}
		return s + "}"
	}
	return "?"
}

func zzSameArgs(a, b *ast.Field) bool {
	if len(a.Arguments) != len(b.Arguments) {
		return false
	}
	for _, x := range a.Arguments {
		// the first argument of that name decides (duplicates are another rule's business)
		var y *ast.Argument
		for _, c := range b.Arguments {
			if c.Name.Value == x.Name.Value {
				y = c
				break
			}
		}
		if y == nil || zzValueText(x.Value) != zzValueText(y.Value) {
			return false
		}
	}
	return true
}

func zzIsObjectType(name string) bool {
	ts := zzTypeSpecOf(name)
	return ts != nil && ts.kind == "object"
}

func (v *zzRefVal) fldConflict(a, b zzFld, depth int) bool {
	if depth > 8 {
		return false
	}
	ta, fa := zzFieldType(a.parent, a.f.Name.Value)
	tb, fb := zzFieldType(b.parent, b.f.Name.Value)
	exclusive := a.parent != b.parent && zzIsObjectType(a.parent) && zzIsObjectType(b.parent)
	if !exclusive {
		// names and arguments are compared whether or not the fields are defined
		if a.f.Name.Value != b.f.Name.Value {
			return true
		}
		if !zzSameArgs(a.f, b.f) {
			return true
		}
	}
	if ta == "" || tb == "" {
		return false // the response shape of undefined fields is another rule's business
	}
	la, lb, na, nb := false, false, false, false
	if fa != nil {
		la, na = fa.list, fa.nonNull
	}
	if fb != nil {
		lb, nb = fb.list, fb.nonNull
	}
	if la != lb || na != nb {
		return true
	}
	leafA := zzIsLeafType(ta) || zzIn(zzEnumNames, ta)
	leafB := zzIsLeafType(tb) || zzIn(zzEnumNames, tb)
	if leafA || leafB {
		if ta != tb {
			return true
		}
		return false
	}
	return v.setsConflict([]zzSet{{a.f.SelectionSet, ta}, {b.f.SelectionSet, tb}}, depth+1)
}

func (v *zzRefVal) setsConflict(sets []zzSet, depth int) bool {
	var flds []zzFld
	visited := map[string]bool{}
	for _, s := range sets {
		v.collectFlds(s.ss, s.parent, visited, &flds)
	}
	key := func(f *ast.Field) string {
		if f.Alias != nil {
			return f.Alias.Value
		}
		return f.Name.Value
	}
	for i := 0; i < len(flds); i++ {
		for j := i; j < len(flds); j++ {
			if key(flds[i].f) != key(flds[j].f) {
				continue
			}
			if i == j {
				// a field alone: its own sub-selection must be mergeable
				t, _ := zzFieldType(flds[i].parent, flds[i].f.Name.Value)
				if t != "" && flds[i].f.SelectionSet != nil && v.setsConflict([]zzSet{{flds[i].f.SelectionSet, t}}, depth+1) {
					return true
				}
				continue
			}
			if v.fldConflict(flds[i], flds[j], depth) {
				return true
			}
		}
	}
	return false
}

func (v *zzRefVal) overlappingFields() bool {
	for _, op := range v.ops {
		if v.setsConflict([]zzSet{{op.SelectionSet, zzRootOf(op)}}, 0) {
			return true
		}
	}
	// fragments are validated on their own too
	for _, f := range v.fragL {
		if v.setsConflict([]zzSet{{f.SelectionSet, f.TypeCondition.Name.Value}}, 0) {
			return true
		}
	}
	return false
}
