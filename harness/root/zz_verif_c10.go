package graphql

import (
	"github.com/graphql-go/graphql/language/ast"
)

type zzDefCase struct {
	name string
	typ  func(color *Enum, in *InputObject) Input
	def  func() interface{}
	kind string // expected outer-to-inner kinds, e.g. "NON_NULL LIST SCALAR"
}

func zzWrapKinds(t Type) string {
	s := ""
	for {
		switch x := t.(type) {
		case *NonNull:
			s += "NON_NULL "
			t = x.OfType
			continue
		case *List:
			s += "LIST "
			t = x.OfType
			continue
		case *Scalar:
			return s + "SCALAR:" + x.Name()
		case *Enum:
			return s + "ENUM:" + x.Name()
		case *InputObject:
			return s + "INPUT_OBJECT:" + x.Name()
		case *Object:
			return s + "OBJECT:" + x.Name()
		case *Interface:
			return s + "INTERFACE:" + x.Name()
		case *Union:
			return s + "UNION:" + x.Name()
		}
		return s + "?"
	}
}

// zzReportedKinds flattens an introspected type reference {kind name ofType{...}}.
func zzReportedKinds(v interface{}) string {
	s := ""
	for v != nil {
		m, ok := v.(map[string]interface{})
		if !ok {
			return s + "?"
		}
		k, _ := m["kind"].(string)
		if n, ok := m["name"].(string); ok && m["ofType"] == nil {
			return s + k + ":" + n
		}
		s += k + " "
		v = m["ofType"]
	}
	return s
}

const zzTypeRef = "kind name ofType{kind name ofType{kind name ofType{kind name}}}"

// zzDefaultRoundTrip: the reported default, parsed as a GraphQL value and
// coerced against the argument type, gives back the configured default.
func zzDefaultRoundTrip(reported string, t Input, want interface{}) bool {
	doc, err := zzTryParse("{ f(a: " + reported + ") }")
	if err != nil {
		return false
	}
	val := zzOpOf(doc).SelectionSet.Selections[0].(*ast.Field).Arguments[0].Value
	got := valueFromAST(val, t, nil)
	return zzDeepEqualAny(got, want)
}

func zzDeepEqualAny(a, b interface{}) bool {
	switch x := b.(type) {
	case []int:
		var l []interface{}
		for _, e := range x {
			l = append(l, e)
		}
		return zzDeepEqual(a, l)
	case float64:
		y, ok := a.(float64)
		return ok && x == y
	case float32:
		y, ok := a.(float64)
		return ok && float64(x) == y
	case *bool:
		return zzDeepEqual(a, *x)
	case *float64:
		y, ok := a.(float64)
		return ok && *x == y
	case *string:
		return zzDeepEqual(a, *x)
	case [2]int:
		return zzDeepEqual(a, []interface{}{x[0], x[1]})
	case int64:
		return zzDeepEqual(a, int(x))
	case int32:
		return zzDeepEqual(a, int(x))
	case uint8:
		return zzDeepEqual(a, int(x))
	}
	return zzDeepEqual(a, b)
}

// ZZ_C10_defaults: for an argument of every input kind with a default of that
// kind, introspection reports the wrapped type reference exactly and a default
// value literal that reads back as the configured default.
func ZZ_C10_defaults() {
	color := NewEnum(EnumConfig{Name: "Color", Values: EnumValueConfigMap{
		"RED": &EnumValueConfig{Value: 0}, "GREEN": &EnumValueConfig{Value: 1}, "BLUE": &EnumValueConfig{Value: "b"}}})
	in := NewInputObject(InputObjectConfig{Name: "In", Fields: InputObjectConfigFieldMap{
		"a": &InputObjectFieldConfig{Type: Int}, "s": &InputObjectFieldConfig{Type: String}}})
	ci := zzChoice("case", 21)
	var t Input
	var def interface{}
	switch ci {
	case 0:
		t, def = Int, 7
	case 1:
		t, def = NewNonNull(Int), -1
	case 2:
		t, def = String, zzString("s", zzParam("K", 2))
	case 3:
		t, def = Boolean, zzChoice("b", 2) == 1
	case 4:
		t, def = Float, 1.5
	case 5:
		t, def = color, []interface{}{0, 1, "b"}[zzChoice("e", 3)]
	case 6:
		t, def = NewList(Int), []interface{}{1, 2}
	case 7:
		t, def = NewNonNull(NewList(NewNonNull(Int))), []interface{}{3}
	case 8:
		t, def = NewList(NewList(Int)), []interface{}{[]interface{}{1}, []interface{}{2, 3}}
	case 9:
		t, def = in, map[string]interface{}{"a": 1, "s": "x"}
	case 10:
		t, def = NewList(color), []interface{}{1, "b"}
	case 11:
		t, def = ID, "id1"
	case 12: // integer defaults of other Go kinds
		t, def = Int, int64(7)
	case 13:
		t, def = Int, int32(-3)
	case 14:
		t, def = NewNonNull(Int), uint8(200)
	case 15:
		t, def = Float, float32(1.5)
	case 16:
		t, def = NewList(Int), []int{4, 5}
	case 17: // defaults given through pointers
		b := true
		t, def = Boolean, &b
	case 18:
		f := 2.5
		t, def = Float, &f
	case 19:
		str := "ptr"
		t, def = String, &str
	case 20: // a Go array
		t, def = NewList(Int), [2]int{6, 7}
	}
	inField := zzChoice("site", 2) == 1 // argument default or input-object field default
	var q *Object
	if !inField {
		q = NewObject(ObjectConfig{Name: "Query", Fields: Fields{
			"f": &Field{Type: String, Args: FieldConfigArgument{"a": &ArgumentConfig{Type: t, DefaultValue: def}}}}})
	} else {
		holder := NewInputObject(InputObjectConfig{Name: "Holder", Fields: InputObjectConfigFieldMap{
			"a": &InputObjectFieldConfig{Type: t, DefaultValue: def}}})
		q = NewObject(ObjectConfig{Name: "Query", Fields: Fields{
			"f": &Field{Type: String, Args: FieldConfigArgument{"h": &ArgumentConfig{Type: holder}}}}})
	}
	schema, err := NewSchema(SchemaConfig{Query: q})
	zzAssert(err == nil, "schema")
	var query string
	if !inField {
		query = "{ __type(name:\"Query\"){ fields{ name args{ name defaultValue type{" + zzTypeRef + "} } } } }"
	} else {
		query = "{ __type(name:\"Holder\"){ inputFields{ name defaultValue type{" + zzTypeRef + "} } } }"
	}
	r := Do(Params{Schema: schema, RequestString: query})
	zzAssert(len(r.Errors) == 0, "introspection query failed")
	tm := r.Data.(map[string]interface{})["__type"].(map[string]interface{})
	var argm map[string]interface{}
	if !inField {
		fields := tm["fields"].([]interface{})
		zzAssert(len(fields) == 1, "fields")
		args := fields[0].(map[string]interface{})["args"].([]interface{})
		zzAssert(len(args) == 1, "args")
		argm = args[0].(map[string]interface{})
	} else {
		ifs := tm["inputFields"].([]interface{})
		zzAssert(len(ifs) == 1, "inputFields")
		argm = ifs[0].(map[string]interface{})
	}
	zzAssert(argm["name"] == "a", "argument name")
	zzAssert(zzReportedKinds(argm["type"]) == zzWrapKinds(t), "wrapped type reference")
	dv, ok := argm["defaultValue"].(string)
	zzAssert(ok, "defaultValue missing")
	zzAssert(zzDefaultRoundTrip(dv, t, def), "reported default does not read back as the configured default")
	zzCover("end")
}

func zzNamesOf(list interface{}) []string {
	l, _ := list.([]interface{})
	var out []string
	for _, e := range l {
		if m, ok := e.(map[string]interface{}); ok {
			n, _ := m["name"].(string)
			out = append(out, n)
		}
	}
	return out
}

func zzSameSet(got []string, want ...string) bool {
	if len(got) != len(want) {
		return false
	}
	for _, w := range want {
		n := 0
		for _, g := range got {
			if g == w {
				n++
			}
		}
		if n != 1 {
			return false
		}
	}
	return true
}

// ZZ_C10_structure: the introspection result describes the schema it was built
// with: type set, kinds, fields with deprecation, interfaces, possible types
// (each once), enum values, directives, root types, __typename; also when
// implementers are appended after construction, in either order.
func ZZ_C10_structure() {
	appendMode := zzChoice("append", 3)
	thunks := zzChoice("thunks", 2) == 1
	inclDep := zzChoice("deprecated", 2) == 1
	node := NewInterface(InterfaceConfig{Name: "Node", Fields: Fields{"id": &Field{Type: NewNonNull(ID)}},
		ResolveType: func(p ResolveTypeParams) *Object { return nil }})
	color := NewEnum(EnumConfig{Name: "Color", Values: EnumValueConfigMap{
		"RED": &EnumValueConfig{Value: 0}, "OLD": &EnumValueConfig{Value: 1, DeprecationReason: "gone"}}})
	mkObj := func(name string) *Object {
		fs := Fields{
			"id":  &Field{Type: NewNonNull(ID)},
			"old": &Field{Type: Int, DeprecationReason: "use id"},
			"c":   &Field{Type: color},
		}
		cfg := ObjectConfig{Name: name, IsTypeOf: func(p IsTypeOfParams) bool { return name == "A" }}
		if thunks {
			cfg.Fields = FieldsThunk(func() Fields { return fs })
			cfg.Interfaces = InterfacesThunk(func() []*Interface { return []*Interface{node} })
		} else {
			cfg.Fields = fs
			cfg.Interfaces = []*Interface{node}
		}
		return NewObject(cfg)
	}
	a, b := mkObj("A"), mkObj("B")
	q := NewObject(ObjectConfig{Name: "Query", Fields: Fields{
		"node": &Field{Type: node},
		"me":   &Field{Type: a, Resolve: func(p ResolveParams) (interface{}, error) { return 1, nil }},
	}})
	// DirIn is referenced by the directive only
	dirIn := NewInputObject(InputObjectConfig{Name: "DirIn", Fields: InputObjectConfigFieldMap{"f": &InputObjectFieldConfig{Type: Int}}})
	custom := NewDirective(DirectiveConfig{Name: "custom", Locations: []string{DirectiveLocationField, DirectiveLocationQuery},
		Args: FieldConfigArgument{"x": &ArgumentConfig{Type: Int}, "y": &ArgumentConfig{Type: NewList(dirIn)}}})
	cfg := SchemaConfig{Query: q, Directives: append([]*Directive{custom}, SpecifiedDirectives...)}
	if appendMode == 0 {
		cfg.Types = []Type{a, b}
	}
	schema, err := NewSchema(cfg)
	zzAssert(err == nil, "schema")
	switch appendMode {
	case 1:
		zzAssert(schema.AppendType(a) == nil && schema.AppendType(b) == nil, "AppendType")
	case 2:
		zzAssert(schema.AppendType(b) == nil && schema.AppendType(a) == nil, "AppendType")
	}
	dep := "false"
	if inclDep {
		dep = "true"
	}
	query := `{
  __schema { queryType{name} mutationType{name} subscriptionType{name} types{name kind} directives{name locations args{name type{kind name}}} }
  n: __type(name:"Node"){ kind name possibleTypes{name} fields{name} interfaces{name} }
  a: __type(name:"A"){ kind name interfaces{name} possibleTypes{name} fields(includeDeprecated:` + dep + `){name isDeprecated deprecationReason type{` + zzTypeRef + `}} }
  c: __type(name:"Color"){ kind enumValues(includeDeprecated:` + dep + `){name isDeprecated deprecationReason} }
  di: __type(name:"DirIn"){ kind inputFields{name} }
  me { __typename }
}`
	r := Do(Params{Schema: schema, RequestString: query})
	if len(r.Errors) > 0 {
		zzFail("introspection query failed: " + r.Errors[0].Message)
	}
	data := r.Data.(map[string]interface{})
	sch := data["__schema"].(map[string]interface{})
	zzAssert(sch["queryType"].(map[string]interface{})["name"] == "Query", "queryType")
	zzAssert(sch["mutationType"] == nil && sch["subscriptionType"] == nil, "absent root types")
	zzAssert(zzSameSet(zzNamesOf(sch["types"]), "Query", "Node", "A", "B", "Color", "DirIn", "ID", "Int", "String", "Boolean",
		"__Schema", "__Type", "__TypeKind", "__Field", "__InputValue", "__EnumValue", "__Directive", "__DirectiveLocation"), "type set")
	zzAssert(zzSameSet(zzNamesOf(sch["directives"]), "custom", "include", "skip", "deprecated"), "directives")
	for _, d := range sch["directives"].([]interface{}) {
		dm := d.(map[string]interface{})
		if dm["name"] == "custom" {
			zzAssert(zzSameSet(zzNamesOf(dm["args"]), "x", "y"), "custom directive args")
			locs, _ := dm["locations"].([]interface{})
			zzAssert(len(locs) == 2, "custom directive locations")
		}
	}
	di, _ := data["di"].(map[string]interface{})
	zzAssert(di != nil && di["kind"] == "INPUT_OBJECT", "a type referenced by a directive argument is not described by __type")
	n := data["n"].(map[string]interface{})
	zzAssert(n["kind"] == "INTERFACE", "Node kind")
	zzAssert(zzSameSet(zzNamesOf(n["possibleTypes"]), "A", "B"), "possible types of Node: each implementer exactly once")
	zzAssert(zzSameSet(zzNamesOf(n["fields"]), "id"), "Node fields")
	am := data["a"].(map[string]interface{})
	zzAssert(am["kind"] == "OBJECT", "A kind")
	zzAssert(zzSameSet(zzNamesOf(am["interfaces"]), "Node"), "A interfaces")
	zzAssert(am["possibleTypes"] == nil, "object has no possibleTypes")
	if inclDep {
		zzAssert(zzSameSet(zzNamesOf(am["fields"]), "id", "old", "c"), "A fields incl. deprecated")
	} else {
		zzAssert(zzSameSet(zzNamesOf(am["fields"]), "id", "c"), "A fields excl. deprecated")
	}
	for _, f := range am["fields"].([]interface{}) {
		fm := f.(map[string]interface{})
		switch fm["name"] {
		case "id":
			zzAssert(zzReportedKinds(fm["type"]) == "NON_NULL SCALAR:ID" && fm["isDeprecated"] == false && fm["deprecationReason"] == nil, "A.id")
		case "old":
			zzAssert(zzReportedKinds(fm["type"]) == "SCALAR:Int" && fm["isDeprecated"] == true && fm["deprecationReason"] == "use id", "A.old")
		case "c":
			zzAssert(zzReportedKinds(fm["type"]) == "ENUM:Color", "A.c")
		}
	}
	cm := data["c"].(map[string]interface{})
	if inclDep {
		zzAssert(zzSameSet(zzNamesOf(cm["enumValues"]), "RED", "OLD"), "enum values incl. deprecated")
	} else {
		zzAssert(zzSameSet(zzNamesOf(cm["enumValues"]), "RED"), "enum values excl. deprecated")
	}
	zzAssert(data["me"].(map[string]interface{})["__typename"] == "A", "__typename")
	// possible-type membership agrees with the declarations
	zzAssert(schema.IsPossibleType(node, a) && schema.IsPossibleType(node, b) && !schema.IsPossibleType(node, q), "IsPossibleType")
	zzCover("end")
}
