package graphql

func ZZ_smoke_do() {
	schema, err := NewSchema(SchemaConfig{Query: NewObject(ObjectConfig{Name: "Query", Fields: Fields{
		"a": &Field{Type: String, Resolve: func(p ResolveParams) (interface{}, error) { return "x", nil }},
		"n": &Field{Type: Int, Args: FieldConfigArgument{"v": &ArgumentConfig{Type: Int, DefaultValue: 7}},
			Resolve: func(p ResolveParams) (interface{}, error) { return p.Args["v"], nil }},
	}})})
	zzAssert(err == nil, "schema")
	r := Do(Params{Schema: schema, RequestString: "{ a n b: n(v: 3) }"})
	zzAssert(len(r.Errors) == 0, "noerr")
	m := r.Data.(map[string]interface{})
	zzAssert(m["a"] == "x", "a")
	zzAssert(m["n"] == 7, "n")
	zzAssert(m["b"] == 3, "b")
	zzCover("end")
}
