package graphql

import "errors"

var zzC12Requests = []struct {
	text string
	vars map[string]interface{}
}{
	{"{ nope }", nil},
	{"{ o{ yy xx } }", nil},
	{"{ i(vv: 1, ww: 2) }", nil},
	{"query($x: Nope, $y: Colour){ a }", nil},
	{"{ io(in:{a:\"x\", c:\"y\", zz:1}) }", nil},
	{"query($in: In){ io(in:$in) }", map[string]interface{}{"in": map[string]interface{}{"a": "x", "c": "y", "zz": 1, "d": "PURPLE"}}},
	{"{ o{ynn} onn{ynn} ol{ynn} }", nil},
	{"{ __type(name:\"Obj\"){ fields{name} interfaces{name} } e:__type(name:\"Color\"){ enumValues{name} } i:__type(name:\"In\"){ inputFields{name defaultValue} } }", nil},
	{"{ __schema{ types{name} directives{name args{name}} } }", nil},
	{"{ n{id} u{__typename} o{o{x y} ol: o{id}} }", nil},
	{"{ ...on Nope{a} ...Missing }", nil},
	{"{ a @skipp(if:true) @include(iff:true) }", nil},
	{"{ __type(name:\"Query\"){ fields{ name args{ name defaultValue type{ name kind ofType{ name } } } } } }", nil},
	{"{ io r lnn(l:[1]) }", nil},
	{"{ p:o{y} q:ol{y x} r:o{o{y}} s:o{y} }", nil}, // y: deferred results that fail
	{"{ c o{ z } }", nil},                           // several suggestions at the same distance
	{"query($in: In){ io(in:$in) }", map[string]interface{}{"in": map[string]interface{}{"zz": 1, "yy": 2, "xx": 3}}},
}

func zzErrorsEqual(a, b *Result) bool {
	if len(a.Errors) != len(b.Errors) {
		return false
	}
	for i := range a.Errors {
		x, y := a.Errors[i], b.Errors[i]
		if x.Message != y.Message || len(x.Locations) != len(y.Locations) || len(x.Path) != len(y.Path) {
			return false
		}
		for j := range x.Locations {
			if x.Locations[j] != y.Locations[j] {
				return false
			}
		}
		for j := range x.Path {
			if x.Path[j] != y.Path[j] {
				return false
			}
		}
	}
	return true
}

// ZZ_C12_request: the same request on the same schema gives the same
// response whatever order hash maps are iterated in (one deviating map range
// anywhere in the request, every rotation), also after another request.
func ZZ_C12_request() {
	ri := zzChoice("req", len(zzC12Requests))
	req := zzC12Requests[ri]
	w := &zzWorld{}
	failing := func(parent, field string, p ResolveParams) (interface{}, error, bool) {
		if field == "ynn" {
			return nil, nil, true
		}
		if field == "id" {
			// deferred results
			return func() (interface{}, error) { return parent + ".id", nil }, nil, true
		}
		if field == "y" {
			// deferred results that fail
			path := zzPathString(p.Info.Path)
			return func() (interface{}, error) { return nil, errors.New("late " + path) }, nil, true
		}
		return nil, nil, false
	}
	w.hook = failing
	schema := zzBuildSchema(w)
	var base, again *Result
	if zzChoice("cache", 2) == 1 {
		// through plan caches: on a fresh cache, and on a cache that first served
		// the same text while abstract fields resolved to the other runtime type
		via := func(c *PlanCache) *Result {
			pr := c.Get(&schema, req.text, "")
			if pr.Plan == nil {
				return &Result{Errors: pr.Errors}
			}
			args := map[string]interface{}{}
			for k, v := range req.vars {
				args[k] = v
			}
			for k, v := range pr.SynthArgs {
				args[k] = v
			}
			return ExecutePlan(pr.Plan, ExecuteParams{Schema: schema, Args: args})
		}
		norm := zzChoice("normalize", 2) == 1
		base = via(NewPlanCache(PlanCacheOptions{MaxEntries: 4, Normalize: norm}))
		c2 := NewPlanCache(PlanCacheOptions{MaxEntries: 4, Normalize: norm})
		w.runtimeN = "Other"
		via(c2)
		w.runtimeN = ""
		zzMapOrder(true, zzParam("D", 1))
		again = via(c2)
		zzMapOrder(false, 0)
	} else {
		base = Do(Params{Schema: schema, RequestString: req.text, VariableValues: req.vars})
		if zzChoice("history", 2) == 1 {
			Do(Params{Schema: schema, RequestString: "{ a o{x} }"})
		}
		zzMapOrder(true, zzParam("D", 1))
		again = Do(Params{Schema: schema, RequestString: req.text, VariableValues: req.vars})
		zzMapOrder(false, 0)
	}
	zzAssert(zzErrorsEqual(base, again), "errors differ between two executions of the same request")
	zzAssert((base.Data == nil) == (again.Data == nil) && (base.Data == nil || zzDeepEqual(base.Data, again.Data)), "data differs between two executions of the same request")
	zzCover("end")
}

// ZZ_C12_fresh_schema: the same schema configuration built again (as in a
// fresh process, i.e. under another map iteration order) answers the same
// request identically.
func ZZ_C12_fresh_schema() {
	ri := zzChoice("req", len(zzC12Requests))
	req := zzC12Requests[ri]
	w := &zzWorld{}
	schema := zzBuildSchema(w)
	base := Do(Params{Schema: schema, RequestString: req.text, VariableValues: req.vars})
	zzMapOrder(true, zzParam("D", 1))
	w2 := &zzWorld{}
	schema2 := zzBuildSchema(w2)
	zzMapOrder(false, 0)
	again := Do(Params{Schema: schema2, RequestString: req.text, VariableValues: req.vars})
	zzAssert(zzErrorsEqual(base, again), "errors differ between two builds of the same schema")
	zzAssert((base.Data == nil) == (again.Data == nil) && (base.Data == nil || zzDeepEqual(base.Data, again.Data)), "data differs between two builds of the same schema")
	zzCover("end")
}

var zzC12Names = []string{"ab", "aB", "Ab", "AB", "ba", "abc"}
var zzC12Typos = []string{"aa", "bb", "a", "ac", "Abc"}

// ZZ_C12_suggestions: "did you mean" lists for a misspelt field, type or
// argument name, on schemas whose names are close to one another (differing
// in letter case, by one letter, by a transposition): the same message under
// every map iteration order.
func ZZ_C12_suggestions() {
	kind := zzChoice("kind", 3)
	var names []string
	last := -1
	for i := 0; i < 3; i++ {
		ni := zzChoice("name"+zzItoa(i), len(zzC12Names))
		zzAssume(ni > last) // every 3-subset of the names once
		last = ni
		names = append(names, zzC12Names[ni])
	}
	typo := zzC12Typos[zzChoice("typo", len(zzC12Typos))]
	for _, m := range names {
		zzAssume(m != typo)
	}
	build := func() Schema {
		fields := Fields{}
		var types []Type
		switch kind {
		case 0:
			for _, n := range names {
				fields[n] = &Field{Type: Int}
			}
		case 1:
			fields["f"] = &Field{Type: Int}
			for _, n := range names {
				types = append(types, NewInputObject(InputObjectConfig{Name: n, Fields: InputObjectConfigFieldMap{"x": &InputObjectFieldConfig{Type: Int}}}))
			}
		default:
			args := FieldConfigArgument{}
			for _, n := range names {
				args[n] = &ArgumentConfig{Type: Int}
			}
			fields["f"] = &Field{Type: Int, Args: args}
		}
		s, err := NewSchema(SchemaConfig{Query: NewObject(ObjectConfig{Name: "Query", Fields: fields}), Types: types})
		zzAssert(err == nil, "schema")
		return s
	}
	var text string
	switch kind {
	case 0:
		text = "{ " + typo + " }"
	case 1:
		text = "query($v: " + typo + "){ f }"
	default:
		text = "{ f(" + typo + ": 1) }"
	}
	schema := build()
	base := Do(Params{Schema: schema, RequestString: text})
	zzAssert(len(base.Errors) > 0, "the misspelt name was accepted")
	zzMapOrder(true, zzParam("D", 1))
	var again *Result
	if zzParam("FRESH", 0) == 1 && zzChoice("fresh", 2) == 1 {
		s2 := build()
		again = Do(Params{Schema: s2, RequestString: text})
	} else {
		again = Do(Params{Schema: schema, RequestString: text})
	}
	zzMapOrder(false, 0)
	zzAssert(zzErrorsEqual(base, again), "errors differ between two executions of the same request")
	zzCover("end")
}
