package graphql

import (
	"errors"

	"github.com/graphql-go/graphql/language/ast"
)

// Outcomes a resolver invocation may be given.
const (
	zzOutNil = iota
	zzOutError
	zzOutValueAndError
	zzOutPanicError
	zzOutPanicString
	zzOutPanicInt
	zzOutThunkValue
	zzOutThunkError
	zzOutThunkPanic
	zzOutThunkThunk // a deferred result that yields another deferred result
	zzOutTypedNil
	zzOutBadInt   // leaf Int only: arbitrary int64
	zzOutNonList  // list fields only
	zzOutBadType  // abstract fields only: a runtime type that is not a possible type
	zzOutNilType  // abstract fields only: value whose type cannot be determined
	zzNumOutcomes
)

type zzFault struct {
	path    string
	outcome int
	badInt  int64
	// all: every invocation of parent.field gets the outcome, not only the one at path
	all           bool
	parent, field string
	// alsoA: the root field `a` fails as well (an error recorded before, or next to, the fault)
	alsoA bool
}

func (f *zzFault) hits(parent, field, path string) bool {
	if f.all {
		return f.parent == parent && f.field == field
	}
	return f.path == path
}

// zzApplyFault is the resolver-side behaviour for the chosen outcome.
func (w *zzWorld) zzApplyFault(f *zzFault, parent string, spec *zzFieldSpec, p ResolveParams) (interface{}, error) {
	def, _ := w.defaultResolve(parent, spec, p)
	switch f.outcome {
	case zzOutNil:
		return nil, nil
	case zzOutError:
		return nil, errors.New("boom")
	case zzOutValueAndError:
		return def, errors.New("boom")
	case zzOutPanicError:
		panic(errors.New("boom"))
	case zzOutPanicString:
		panic("boom")
	case zzOutPanicInt:
		panic(42)
	case zzOutThunkValue:
		return func() (interface{}, error) { return def, nil }, nil
	case zzOutThunkError:
		return func() (interface{}, error) { return def, errors.New("boom") }, nil
	case zzOutThunkPanic:
		return func() (interface{}, error) { panic("boom") }, nil
	case zzOutThunkThunk:
		return func() (interface{}, error) {
			return func() (interface{}, error) { return def, nil }, nil
		}, nil
	case zzOutTypedNil:
		var np *zzObjVal
		return np, nil
	case zzOutBadInt:
		return f.badInt, nil
	case zzOutNonList:
		return "not a list", nil
	case zzOutBadType:
		return zzObjVal{T: "Query"}, nil
	case zzOutNilType:
		return "opaque", nil
	}
	return def, nil
}

// zzFaultFails: does the outcome make the field fail (null + error)?
func zzFaultFails(o int) bool {
	switch o {
	case zzOutError, zzOutValueAndError, zzOutPanicError, zzOutPanicString, zzOutPanicInt, zzOutThunkError, zzOutThunkPanic, zzOutNonList, zzOutBadType, zzOutNilType:
		return true
	}
	return false
}

type zzRefF struct {
	zzRef
	fault    *zzFault
	errPaths []string
	// failures met after the enclosing object was already doomed by a non-null
	// violation: an implementation may stop executing that object and not report them
	optPaths []string
	doomed   int
}

func (r *zzRefF) expects(path string) bool {
	for _, p := range r.errPaths {
		if p == path {
			return true
		}
	}
	for _, p := range r.optPaths {
		if p == path {
			return true
		}
	}
	return false
}

func (r *zzRefF) fail(path string) {
	if r.doomed > 0 {
		r.optPaths = append(r.optPaths, path)
	} else {
		r.errPaths = append(r.errPaths, path)
	}
}

// execSelF: expected data of a selection set under one fault; ok=false means a
// non-null violation propagates to the parent.
func (r *zzRefF) execSelF(runtime string, sets []*ast.SelectionSet, path string) (map[string]interface{}, bool) {
	var groups []zzGroup
	visited := map[string]bool{}
	for _, ss := range sets {
		r.collect(runtime, ss, visited, &groups)
	}
	ts := zzTypeSpecOf(runtime)
	out := map[string]interface{}{}
	alive := true
	for _, g := range groups {
		fname := g.fields[0].Name.Value
		if fname == "__typename" {
			out[g.key] = runtime
			continue
		}
		spec := zzFieldSpecOf(ts, fname)
		if spec == nil {
			continue
		}
		fpath := path + "/" + g.key
		val, ok := r.fieldF(runtime, spec, g, fpath)
		if !ok {
			if spec.nonNull {
				if alive {
					alive = false
					r.doomed++ // the remaining siblings may or may not be executed
				}
				continue
			}
			val = nil
		}
		out[g.key] = val
	}
	if !alive {
		r.doomed--
	}
	return out, alive
}

func (r *zzRefF) fieldF(runtime string, spec *zzFieldSpec, g zzGroup, fpath string) (interface{}, bool) {
	if r.fault != nil && r.fault.alsoA && runtime == "Query" && spec.name == "a" && !r.fault.hits(runtime, spec.name, fpath) {
		r.fail(fpath)
		return nil, false
	}
	faulty := r.fault != nil && r.fault.hits(runtime, spec.name, fpath)
	if faulty {
		o := r.fault.outcome
		if zzFaultFails(o) {
			r.fail(fpath)
			return nil, false
		}
		switch o {
		case zzOutNil, zzOutTypedNil:
			if spec.nonNull {
				r.fail(fpath)
			}
			return nil, false
		case zzOutBadInt:
			if r.fault.badInt < -2147483648 || r.fault.badInt > 2147483647 {
				if spec.nonNull {
					r.fail(fpath)
				}
				return nil, false
			}
			return int(r.fault.badInt), true
		}
		// thunk returning the default value: as if not faulty
	}
	if zzIsLeafType(spec.typ) {
		return zzLeafValue(runtime, spec.name, r.argValue(spec, g.fields[0])), true
	}
	var subs []*ast.SelectionSet
	for _, f := range g.fields {
		subs = append(subs, f.SelectionSet)
	}
	rt := spec.typ
	if rt == "Node" || rt == "U" {
		rt = r.w.runtimeN
		if rt == "" {
			rt = "Obj"
		}
	}
	if spec.list {
		var l []interface{}
		for i := 0; i < 2; i++ {
			m, ok := r.execSelF(rt, subs, fpath+"/"+zzItoa(i))
			if ok {
				l = append(l, m)
			} else {
				l = append(l, nil) // [Obj]: elements are nullable
			}
		}
		return l, true
	}
	m, ok := r.execSelF(rt, subs, fpath)
	if !ok {
		return nil, false
	}
	return m, true
}

var zzC04Queries = []string{
	"{ a o{x ynn} b }",
	"{ a onn{x ynn} b }",
	"{ ol{x ynn o{ynn}} a }",
	"{ o{o{ynn x} y} n{id} }",
	"{ u{... on Obj{x ynn}} n{id ... on Obj{o{x}}} }",
	"{ i o{n{id}} }",
	"{ x:a y:o{z:x} ol{y} }",
	"{ ol{ n{id} x } n{id} }",
	"{ ol{ n{... on Obj{x}} ynn } u{... on Obj{x}} }",
	// a response that fans out (several container children) in front of the subtree holding the fault
	"{ o{ o{x} p:o{x} q:o{y} } z:o{ x o{y} } }",
}

func zzErrPath(e interface{ }) string { return "" }

// ZZ_C04_faults: one resolver invocation (chosen among all invocations of the
// query) is given an adversarial outcome; the response must be exactly what
// null propagation prescribes: the failing field null (never the raw value),
// one error addressed at it, non-null violations moved to the nearest nullable
// ancestor or to data, every other field untouched.
func ZZ_C04_faults() {
	qi := zzChoice("q", len(zzC04Queries))
	text := zzC04Queries[qi]
	w := &zzWorld{}
	schema := zzBuildSchema(w)
	doc := zzParse(text)
	// fault-free reference run enumerates the invocation paths
	_, calls := zzRefExecute(w, doc, "", nil)
	ci := zzChoice("target", len(calls))
	call := calls[ci]
	at := 0
	for i := 0; i < len(call); i++ {
		if call[i] == '@' {
			at = i
		}
	}
	target := call[at+1:]
	dot := 0
	for i := 0; i < at; i++ {
		if call[i] == '.' {
			dot = i
		}
	}
	parent, fname := call[:dot], call[dot+1:at]
	spec := zzFieldSpecOf(zzTypeSpecOf(parent), fname)
	out := zzChoice("outcome", zzNumOutcomes)
	// outcomes that only make sense for some field kinds
	isAbstract := spec.typ == "Node" || spec.typ == "U"
	isObject := !zzIsLeafType(spec.typ) && !isAbstract
	switch out {
	case zzOutBadInt:
		zzAssume(spec.typ == "Int")
	case zzOutNonList:
		zzAssume(spec.list)
	case zzOutBadType, zzOutNilType:
		zzAssume(isAbstract)
	case zzOutTypedNil:
		zzAssume(isObject || isAbstract)
	}
	// recorded defect KF-C04-thunk-nonnull: a deferred (thunk) failure in a
	// non-null position is only discovered after the enclosing objects were
	// assembled, so the null cannot stop at the nearest nullable ancestor and
	// the whole data becomes null. Only that exact outcome is excused below.
	knownRegion := (out == zzOutThunkError || out == zzOutThunkPanic) && spec.nonNull
	fault := &zzFault{path: target, outcome: out, parent: parent, field: fname}
	fault.all = zzChoice("scope", 2) == 1
	fault.alsoA = zzContains(text, "{ a ") && zzChoice("alsoA", 2) == 1
	// deferAll: all the other resolvers return deferred results (and lists of deferred elements)
	deferAll := zzChoice("defer", 2) == 1
	if out == zzOutBadInt {
		fault.badInt = zzInt64("badInt")
	}
	w.hook = func(parent, field string, p ResolveParams) (interface{}, error, bool) {
		if fault.hits(parent, field, zzPathString(p.Info.Path)) {
			v, err := w.zzApplyFault(fault, parent, zzFieldSpecOf(zzTypeSpecOf(parent), field), p)
			return v, err, true
		}
		if fault.alsoA && parent == "Query" && field == "a" {
			return nil, errors.New("a failed"), true
		}
		if deferAll {
			// every other resolver defers its result; lists are lists of deferred elements
			spec := zzFieldSpecOf(zzTypeSpecOf(parent), field)
			def, _ := w.defaultResolve(parent, spec, p)
			if l, ok := def.([]interface{}); ok && spec.list {
				out := make([]interface{}, len(l))
				for i := range l {
					e := l[i]
					out[i] = func() (interface{}, error) { return e, nil }
				}
				return func() (interface{}, error) { return out, nil }, nil, true
			}
			return func() (interface{}, error) { return def, nil }, nil, true
		}
		return nil, nil, false
	}
	var r *Result
	zzGuard("Do", func() { r = Do(Params{Schema: schema, RequestString: text}) })
	ref := &zzRefF{zzRef: zzRef{w: w, frags: map[string]*ast.FragmentDefinition{}}, fault: fault}
	var op *ast.OperationDefinition
	for _, d := range doc.Definitions {
		if x, ok := d.(*ast.OperationDefinition); ok {
			op = x
		}
	}
	want, ok := ref.execSelF("Query", []*ast.SelectionSet{op.SelectionSet}, "")
	allExpected := len(r.Errors) >= 1
	for _, e := range r.Errors {
		if !ref.expects(zzErrPathStr(e.Path)) {
			allExpected = false
		}
	}
	if knownRegion && ok && r.Data == nil && allExpected {
		zzKnown("KF-C04-thunk-nonnull")
		zzFail("a deferred failure in a non-null position nulled the whole data instead of the nearest nullable ancestor")
	}
	if ok {
		zzAssert(zzDeepEqual(r.Data, want), "data differs from what null propagation prescribes")
	} else {
		zzAssert(r.Data == nil, "a non-null violation at the top level must null data")
	}
	// errors: one per failing field, addressed at it; failures inside an object
	// that an earlier non-null violation already doomed may go unreported
	zzAssert(len(r.Errors) >= len(ref.errPaths) && len(r.Errors) <= len(ref.errPaths)+len(ref.optPaths), "number of errors")
	seen := map[string]bool{}
	for _, e := range r.Errors {
		ps := zzErrPathStr(e.Path)
		found := false
		for _, want := range ref.errPaths {
			if want == ps {
				found = true
			}
		}
		for _, want := range ref.optPaths {
			if want == ps {
				found = true
			}
		}
		zzAssert(found, "an error path does not address a failing field")
		zzAssert(!seen[ps], "two errors for one failing field")
		seen[ps] = true
	}
	for _, want := range ref.errPaths {
		zzAssert(seen[want], "a failing field outside any nulled subtree has no error")
	}
	zzAssert(zzJSONable(r.Data, 0), "data not serialisable")
	zzCover("end")
}

func zzErrPathStr(p []interface{}) string {
	ps := ""
	for _, k := range p {
		switch v := k.(type) {
		case string:
			ps += "/" + v
		case int:
			ps += "/" + zzItoa(v)
		}
	}
	return ps
}

func zzNullAt(data interface{}, path []interface{}) bool {
	cur := data
	for _, k := range path {
		if cur == nil {
			return true
		}
		switch v := k.(type) {
		case string:
			m, ok := cur.(map[string]interface{})
			if !ok {
				return false
			}
			cur = m[v]
		case int:
			l, ok := cur.([]interface{})
			if !ok || v >= len(l) {
				return false
			}
			cur = l[v]
		}
	}
	return cur == nil
}

var zzC18Queries = []string{
	"{ o{ o{ o{ x y id } } } }",
	"{ ol{ o{ x y } n{ id } x } }",
	"{ a b o{ x y o{ x y o{ x y o{ x y } } } } }",
	"{ p:o{ q:o{ r:o{ s:x t:y } } } ol{ u:x } }",
}

// ZZ_C18_paths: a chosen subset of the leaf fields of deep queries (nested
// objects, lists, aliases) fails; every error carries the path of the field
// that failed (each failing field exactly one error) and the data at that
// path is null.
func ZZ_C18_paths() {
	qi := zzChoice("q", len(zzC18Queries))
	text := zzC18Queries[qi]
	w := &zzWorld{}
	schema := zzBuildSchema(w)
	doc := zzParse(text)
	_, calls := zzRefExecute(w, doc, "", nil)
	// leaf invocations
	var leaves []string
	for _, c := range calls {
		at, dot := 0, 0
		for i := 0; i < len(c); i++ {
			if c[i] == '@' {
				at = i
			}
		}
		for i := 0; i < at; i++ {
			if c[i] == '.' {
				dot = i
			}
		}
		spec := zzFieldSpecOf(zzTypeSpecOf(c[:dot]), c[dot+1:at])
		if spec != nil && zzIsLeafType(spec.typ) {
			leaves = append(leaves, c[at+1:])
		}
	}
	// which leaves fail: all of them, or a chosen pair (so that siblings and cousins fail together)
	failing := map[string]bool{}
	mode := zzChoice("mode", 2)
	if mode == 0 {
		for _, l := range leaves {
			failing[l] = true
		}
	} else {
		failing[leaves[zzChoice("f1", len(leaves))]] = true
		failing[leaves[zzChoice("f2", len(leaves))]] = true
	}
	w.hook = func(parent, field string, p ResolveParams) (interface{}, error, bool) {
		if failing[zzPathString(p.Info.Path)] {
			return nil, errors.New("boom"), true
		}
		return nil, nil, false
	}
	r := Do(Params{Schema: schema, RequestString: text})
	zzAssert(len(r.Errors) == len(failing), "one error per failing field")
	seen := map[string]bool{}
	for _, e := range r.Errors {
		ps := zzErrPathStr(e.Path)
		zzAssert(failing[ps], "an error path does not address a failing field: "+ps)
		zzAssert(!seen[ps], "two errors carry the same path: "+ps)
		seen[ps] = true
		zzAssert(zzNullAt(r.Data, e.Path), "data at an error's path is not null")
		zzAssert(len(e.Locations) == 1 && e.Locations[0].Line == 1 && e.Locations[0].Column >= 1, "field error location")
	}
	zzCover("end")
}
