package graphql

import (
	"github.com/graphql-go/graphql/language/ast"
	"github.com/graphql-go/graphql/language/parser"
	"github.com/graphql-go/graphql/language/source"
)

// ---------------------------------------------------------------------------
// The zoo: one small table from which both the real schema and the reference
// executor are built, so the oracle never asks the implementation what the
// schema is.

type zzFieldSpec struct {
	name    string
	typ     string // named type
	list    bool   // [typ]
	nonNull bool   // typ! (outer)
	args    []zzArgSpec
}

type zzArgSpec struct {
	name    string
	typ     string
	hasDef  bool
	def     interface{}
	nonNull bool
	list    bool
}

type zzTypeSpec struct {
	name     string
	kind     string // "object" | "interface" | "union"
	fields   []zzFieldSpec
	implOf   []string // interfaces implemented / union membership
}

var zzZooTypes = []zzTypeSpec{
	{name: "Query", kind: "object", fields: []zzFieldSpec{
		{name: "a", typ: "String"},
		{name: "b", typ: "String"},
		{name: "i", typ: "Int", args: []zzArgSpec{{name: "v", typ: "Int", hasDef: true, def: 7}, {name: "w", typ: "Int"}}},
		{name: "e", typ: "String", args: []zzArgSpec{{name: "c", typ: "Color"}}},
		{name: "s", typ: "String", args: []zzArgSpec{{name: "t", typ: "String"}, {name: "u", typ: "String"}}},
		{name: "io", typ: "String", args: []zzArgSpec{{name: "in", typ: "In", hasDef: true, def: map[string]interface{}{"b": "x", "a": 1, "c": 2}}}},
		{name: "r", typ: "Int", args: []zzArgSpec{{name: "x", typ: "Int", nonNull: true}}},
		{name: "li", typ: "Int", args: []zzArgSpec{{name: "l", typ: "Int", list: true}}},
		{name: "lnn", typ: "Int", args: []zzArgSpec{{name: "l", typ: "Int", list: true, nonNull: true}}},
		{name: "o", typ: "Obj"},
		{name: "onn", typ: "Obj", nonNull: true},
		{name: "ol", typ: "Obj", list: true},
		{name: "n", typ: "Node"},
		{name: "u", typ: "U"},
	}},
	{name: "Obj", kind: "object", implOf: []string{"Node", "U"}, fields: []zzFieldSpec{
		{name: "id", typ: "String"},
		{name: "x", typ: "String"},
		{name: "y", typ: "String"},
		{name: "ynn", typ: "String", nonNull: true},
		{name: "o", typ: "Obj"},
		{name: "n", typ: "Node"},
	}},
	{name: "Other", kind: "object", implOf: []string{"Node", "U"}, fields: []zzFieldSpec{
		{name: "id", typ: "String"},
		{name: "z", typ: "String"},
	}},
	{name: "Node", kind: "interface", fields: []zzFieldSpec{{name: "id", typ: "String"}}},
	{name: "U", kind: "union"},
	{name: "Mutation", kind: "object", fields: []zzFieldSpec{
		{name: "m1", typ: "Int"},
		{name: "m2", typ: "Int"},
		{name: "m3", typ: "Int"},
		{name: "mo", typ: "Obj"},
	}},
}

func zzTypeSpecOf(name string) *zzTypeSpec {
	for i := range zzZooTypes {
		if zzZooTypes[i].name == name {
			return &zzZooTypes[i]
		}
	}
	return nil
}

func zzFieldSpecOf(t *zzTypeSpec, name string) *zzFieldSpec {
	for i := range t.fields {
		if t.fields[i].name == name {
			return &t.fields[i]
		}
	}
	return nil
}

func zzIsLeafType(name string) bool { return name == "String" || name == "Int" || name == "Boolean" }

// zzObjVal is the Go value every object-typed resolver returns: it carries its
// runtime type name and a serial number so that sources can be told apart.
type zzObjVal struct {
	T  string
	ID int
}

// zzOutcome: what a resolver invocation does (C04/C20 use the non-default ones).
type zzCall struct {
	Parent string // runtime parent type
	Field  string
	Path   string
	Args   map[string]interface{}
	Source interface{}
	Info   ResolveInfo
	Ctx    interface{}
}

type zzTypeCall struct {
	Kind  string // "ResolveType" | "IsTypeOf"
	Value interface{}
	Info  ResolveInfo
	Ctx   interface{}
}

type zzWorld struct {
	returned  map[string]interface{} // response path -> value the resolver at that path returned (list elements: path/i)
	typeCalls []zzTypeCall
	calls    []zzCall
	nextID   int
	runtimeN string // runtime type for Node/U values: "Obj" or "Other"
	hook     func(parent, field string, p ResolveParams) (interface{}, error, bool)
	useIsTypeOf bool
}

func zzPathString(p *ResponsePath) string {
	if p == nil {
		return ""
	}
	s := ""
	for _, k := range p.AsArray() {
		switch v := k.(type) {
		case string:
			s += "/" + v
		case int:
			s += "/" + zzItoa(v)
		}
	}
	return s
}

func zzItoa(n int) string {
	if n == 0 {
		return "0"
	}
	neg := n < 0
	if neg {
		n = -n
	}
	var b []byte
	for n > 0 {
		b = append([]byte{byte('0' + n%10)}, b...)
		n /= 10
	}
	if neg {
		b = append([]byte{'-'}, b...)
	}
	return string(b)
}

// zzLeafValue: the canonical value of a leaf field (the reference uses the same function).
func zzInSummary(in map[string]interface{}) string {
	if in == nil {
		return "(none)"
	}
	out := "("
	for _, k := range []string{"a", "b", "c", "d", "n"} {
		v, ok := in[k]
		if !ok {
			continue
		}
		out += k
		switch x := v.(type) {
		case string:
			out += "=" + x
		case map[string]interface{}:
			out += zzInSummary(x)
		}
		out += ";"
	}
	return out + ")"
}

func zzLeafValue(parent, field string, args map[string]interface{}) interface{} {
	if parent == "Query" && field == "i" {
		// echo the arguments so that argument delivery is observable in the response
		v, _ := args["v"].(int)
		w, hasW := args["w"].(int)
		if !hasW {
			w = -1
		}
		return v + w + w + w // adds only: 64-bit multiplications stall the bit-blasting solvers
	}
	if parent == "Query" && field == "e" {
		switch c := args["c"].(type) {
		case int:
			return "int" + zzItoa(c)
		case string:
			return "str:" + c
		case nil:
			return "none"
		}
		return "other"
	}
	if parent == "Query" && field == "io" {
		// echo the shape of the input object (which fields arrived, strings verbatim)
		in, _ := args["in"].(map[string]interface{})
		return "io" + zzInSummary(in)
	}
	if parent == "Query" && field == "s" {
		t, hasT := args["t"].(string)
		u, hasU := args["u"].(string)
		out := "s"
		if hasT {
			out += "|t=" + t
		}
		if hasU {
			out += "|u=" + u
		}
		return out
	}
	if parent == "Query" && (field == "li" || field == "lnn") {
		sum := 0
		if l, ok := args["l"].([]interface{}); ok {
			for _, e := range l {
				if n, ok := e.(int); ok {
					sum += n
				}
			}
		}
		return sum
	}
	if parent == "Query" && field == "r" {
		x, _ := args["x"].(int)
		return x
	}
	if field == "m1" || field == "m2" || field == "m3" {
		return 1
	}
	return parent + "." + field
}

func zzDeepCopy(v interface{}) interface{} {
	switch x := v.(type) {
	case map[string]interface{}:
		m := map[string]interface{}{}
		for k, e := range x {
			m[k] = zzDeepCopy(e)
		}
		return m
	case []interface{}:
		l := make([]interface{}, len(x))
		for i, e := range x {
			l[i] = zzDeepCopy(e)
		}
		return l
	}
	return v
}

// zzBuildSchema builds the real schema from the table.
func zzBuildSchema(w *zzWorld) Schema {
	color := NewEnum(EnumConfig{Name: "Color", Values: EnumValueConfigMap{
		"RED": &EnumValueConfig{Value: 0}, "GREEN": &EnumValueConfig{Value: 1}, "BLUE": &EnumValueConfig{Value: "b"}}})
	var inObj *InputObject
	inObj = NewInputObject(InputObjectConfig{Name: "In", Fields: InputObjectConfigFieldMapThunk(func() InputObjectConfigFieldMap {
		return InputObjectConfigFieldMap{
			"a": &InputObjectFieldConfig{Type: Int},
			"b": &InputObjectFieldConfig{Type: NewNonNull(String)},
			"c": &InputObjectFieldConfig{Type: Int, DefaultValue: 5},
			"d": &InputObjectFieldConfig{Type: color},
			"n": &InputObjectFieldConfig{Type: inObj}, // nested input object
		}
	})})
	named := map[string]Type{"String": String, "Int": Int, "Boolean": Boolean, "Color": color, "In": inObj}
	var node *Interface
	var uni *Union
	objs := map[string]*Object{}
	resolveType := func(p ResolveTypeParams) *Object {
		w.typeCalls = append(w.typeCalls, zzTypeCall{Kind: "ResolveType", Value: p.Value, Info: p.Info, Ctx: p.Context})
		if v, ok := p.Value.(zzObjVal); ok {
			return objs[v.T]
		}
		return nil
	}
	node = NewInterface(InterfaceConfig{Name: "Node", Fields: Fields{"id": &Field{Type: String}}})
	if !w.useIsTypeOf {
		node.ResolveType = resolveType
	}
	mkFields := func(ts *zzTypeSpec) FieldsThunk {
		return func() Fields {
			fs := Fields{}
			for _, f := range ts.fields {
				f := f
				var t Output
				switch f.typ {
				case "Node":
					t = node
				case "U":
					t = uni
				default:
					if o, ok := objs[f.typ]; ok {
						t = o
					} else {
						t = named[f.typ].(Output)
					}
				}
				if f.list {
					t = NewList(t)
				}
				if f.nonNull {
					t = NewNonNull(t)
				}
				args := FieldConfigArgument{}
				for _, a := range f.args {
					var at Input = named[a.typ].(Input)
					if a.list {
						at = NewList(at)
					}
					if a.nonNull {
						at = NewNonNull(at)
					}
					ac := &ArgumentConfig{Type: at}
					if a.hasDef {
						// the schema gets its own copy: the table stays what the oracle reads
						ac.DefaultValue = zzDeepCopy(a.def)
					}
					args[a.name] = ac
				}
				parent := ts.name
				fs[f.name] = &Field{Type: t, Args: args, Resolve: func(p ResolveParams) (interface{}, error) {
					argsCopy := map[string]interface{}{}
					for k, v := range p.Args {
						argsCopy[k] = zzDeepCopy(v) // a snapshot the resolver cannot reach
					}
					w.calls = append(w.calls, zzCall{Parent: parent, Field: f.name, Path: zzPathString(p.Info.Path), Args: argsCopy, Source: p.Source, Info: p.Info, Ctx: p.Context})
					if w.hook != nil {
						if v, err, handled := w.hook(parent, f.name, p); handled {
							return v, err
						}
					}
					return w.defaultResolve(parent, &f, p)
				}}
			}
			return fs
		}
	}
	for i := range zzZooTypes {
		ts := &zzZooTypes[i]
		if ts.kind != "object" {
			continue
		}
		cfg := ObjectConfig{Name: ts.name, Fields: mkFields(ts)}
		for _, in := range ts.implOf {
			if in == "Node" {
				cfg.Interfaces = []*Interface{node}
			}
		}
		if w.useIsTypeOf && len(ts.implOf) > 0 {
			tn := ts.name
			cfg.IsTypeOf = func(p IsTypeOfParams) bool {
				w.typeCalls = append(w.typeCalls, zzTypeCall{Kind: "IsTypeOf", Value: p.Value, Info: p.Info, Ctx: p.Context})
				v, ok := p.Value.(zzObjVal)
				return ok && v.T == tn
			}
		}
		objs[ts.name] = NewObject(cfg)
	}
	ucfg := UnionConfig{Name: "U", Types: []*Object{objs["Obj"], objs["Other"]}}
	if !w.useIsTypeOf {
		ucfg.ResolveType = resolveType
	}
	uni = NewUnion(ucfg)
	// a custom directive for operations and fragment definitions
	onop := NewDirective(DirectiveConfig{Name: "onop", Locations: []string{DirectiveLocationQuery, DirectiveLocationMutation,
		DirectiveLocationSubscription, DirectiveLocationFragmentDefinition}})
	s, err := NewSchema(SchemaConfig{Query: objs["Query"], Mutation: objs["Mutation"], Types: []Type{objs["Other"]},
		Directives: append([]*Directive{onop}, SpecifiedDirectives...)})
	if err != nil {
		panic(err)
	}
	return s
}

func (w *zzWorld) defaultResolve(parent string, f *zzFieldSpec, p ResolveParams) (interface{}, error) {
	mk := func(t string) interface{} {
		w.nextID++
		return zzObjVal{T: t, ID: w.nextID}
	}
	rt := f.typ
	if rt == "Node" || rt == "U" {
		rt = w.runtimeN
		if rt == "" {
			rt = "Obj"
		}
	}
	if zzIsLeafType(f.typ) {
		return zzLeafValue(parent, f.name, p.Args), nil
	}
	if w.returned == nil {
		w.returned = map[string]interface{}{}
	}
	ps := zzPathString(p.Info.Path)
	if f.list {
		a, b := mk(rt), mk(rt)
		w.returned[ps+"/0"], w.returned[ps+"/1"] = a, b
		return []interface{}{a, b}, nil
	}
	v := mk(rt)
	w.returned[ps] = v
	return v, nil
}

// ---------------------------------------------------------------------------
// Reference executor: the spec's ExecuteSelectionSet / CollectFields over the
// table, with @skip/@include evaluated at every occurrence.

type zzRef struct {
	w     *zzWorld
	frags map[string]*ast.FragmentDefinition
	vars  map[string]interface{}
	calls []string // expected resolver invocations: "Parent.field@path"
}

func zzDirBool(v ast.Value, vars map[string]interface{}) bool {
	switch x := v.(type) {
	case *ast.BooleanValue:
		return x.Value
	case *ast.Variable:
		b, _ := vars[x.Name.Value].(bool)
		return b
	}
	return false
}

func (r *zzRef) included(dirs []*ast.Directive) bool {
	for _, d := range dirs {
		if d.Name.Value == "skip" {
			for _, a := range d.Arguments {
				if a.Name.Value == "if" && zzDirBool(a.Value, r.vars) {
					return false
				}
			}
		}
		if d.Name.Value == "include" {
			for _, a := range d.Arguments {
				if a.Name.Value == "if" && !zzDirBool(a.Value, r.vars) {
					return false
				}
			}
		}
	}
	return true
}

func zzTypeMatches(cond string, runtime string) bool {
	if cond == "" || cond == runtime {
		return true
	}
	rt := zzTypeSpecOf(runtime)
	for _, in := range rt.implOf {
		if in == cond {
			return true
		}
	}
	return false
}

type zzGroup struct {
	key    string
	fields []*ast.Field
}

func (r *zzRef) collect(runtime string, ss *ast.SelectionSet, visited map[string]bool, groups *[]zzGroup) {
	if ss == nil {
		return
	}
	for _, sel := range ss.Selections {
		switch s := sel.(type) {
		case *ast.Field:
			if !r.included(s.Directives) {
				continue
			}
			key := s.Name.Value
			if s.Alias != nil {
				key = s.Alias.Value
			}
			found := false
			for i := range *groups {
				if (*groups)[i].key == key {
					(*groups)[i].fields = append((*groups)[i].fields, s)
					found = true
				}
			}
			if !found {
				*groups = append(*groups, zzGroup{key: key, fields: []*ast.Field{s}})
			}
		case *ast.InlineFragment:
			if !r.included(s.Directives) {
				continue
			}
			cond := ""
			if s.TypeCondition != nil {
				cond = s.TypeCondition.Name.Value
			}
			if !zzTypeMatches(cond, runtime) {
				continue
			}
			r.collect(runtime, s.SelectionSet, visited, groups)
		case *ast.FragmentSpread:
			if !r.included(s.Directives) {
				continue
			}
			name := s.Name.Value
			if visited[name] {
				continue
			}
			visited[name] = true
			fd := r.frags[name]
			if fd == nil {
				continue
			}
			if !zzTypeMatches(fd.TypeCondition.Name.Value, runtime) {
				continue
			}
			r.collect(runtime, fd.SelectionSet, visited, groups)
		}
	}
}

// refValue: the internal value of a literal (variables substituted); ok=false when
// it is an absent / null variable.
func (r *zzRef) refValue(g ast.Value, typ string) (interface{}, bool) {
	switch g := g.(type) {
	case *ast.IntValue:
		n := 0
		neg := false
		for i := 0; i < len(g.Value); i++ {
			if g.Value[i] == '-' {
				neg = true
				continue
			}
			n = n*10 + int(g.Value[i]-'0')
		}
		if neg {
			n = -n
		}
		return n, true
	case *ast.StringValue:
		return g.Value, true
	case *ast.EnumValue:
		switch g.Value {
		case "RED":
			return 0, true
		case "GREEN":
			return 1, true
		case "BLUE":
			return "b", true
		}
		return nil, false
	case *ast.Variable:
		if v, ok := r.vars[g.Name.Value]; ok && v != nil {
			return v, true
		}
		return nil, false
	case *ast.ListValue:
		out := []interface{}{}
		for _, e := range g.Values {
			v, _ := r.refValue(e, typ)
			out = append(out, v)
		}
		return out, true
	case *ast.ObjectValue:
		// input object In {a: Int, b: String!, c: Int = 5, d: Color}
		out := map[string]interface{}{}
		for _, fname := range []string{"a", "b", "c", "d", "n"} {
			set := false
			for _, of := range g.Fields {
				if of.Name.Value == fname {
					ft := "Int"
					if fname == "b" {
						ft = "String"
					} else if fname == "d" {
						ft = "Color"
					} else if fname == "n" {
						ft = "In"
					}
					if v, ok := r.refValue(of.Value, ft); ok {
						out[fname] = v
						set = true
					}
				}
			}
			if !set && fname == "c" {
				out["c"] = 5
			}
		}
		return out, true
	}
	return nil, false
}

func (r *zzRef) argValue(spec *zzFieldSpec, f *ast.Field) map[string]interface{} {
	out := map[string]interface{}{}
	for _, a := range spec.args {
		var given ast.Value
		for _, ga := range f.Arguments {
			if ga.Name.Value == a.name {
				given = ga.Value
			}
		}
		set := false
		if given != nil {
			if v, ok := r.refValue(given, a.typ); ok {
				out[a.name] = v
				set = true
			}
		}
		if !set && a.hasDef {
			out[a.name] = a.def
		}
	}
	return out
}

// execSel returns the expected data for a selection set executed on an object
// of runtime type `runtime` at response path `path`.
func (r *zzRef) execSel(runtime string, sets []*ast.SelectionSet, path string) map[string]interface{} {
	var groups []zzGroup
	visited := map[string]bool{}
	for _, ss := range sets {
		r.collect(runtime, ss, visited, &groups)
	}
	ts := zzTypeSpecOf(runtime)
	out := map[string]interface{}{}
	for _, g := range groups {
		fname := g.fields[0].Name.Value
		if fname == "__typename" {
			out[g.key] = runtime
			continue
		}
		spec := zzFieldSpecOf(ts, fname)
		if spec == nil {
			continue
		}
		fpath := path + "/" + g.key
		r.calls = append(r.calls, runtime+"."+fname+"@"+fpath)
		if zzIsLeafType(spec.typ) {
			out[g.key] = zzLeafValue(runtime, fname, r.argValue(spec, g.fields[0]))
			continue
		}
		var subs []*ast.SelectionSet
		for _, f := range g.fields {
			subs = append(subs, f.SelectionSet)
		}
		rt := spec.typ
		if rt == "Node" || rt == "U" {
			rt = r.w.runtimeN
			if rt == "" {
				rt = "Obj"
			}
		}
		if spec.list {
			out[g.key] = []interface{}{r.execSel(rt, subs, fpath+"/0"), r.execSel(rt, subs, fpath+"/1")}
		} else {
			out[g.key] = r.execSel(rt, subs, fpath)
		}
	}
	return out
}

// zzRefExecute runs the reference executor for the (single or named) operation of doc.
func zzRefExecute(w *zzWorld, doc *ast.Document, opName string, vars map[string]interface{}) (map[string]interface{}, []string) {
	r := &zzRef{w: w, frags: map[string]*ast.FragmentDefinition{}, vars: vars}
	var op *ast.OperationDefinition
	for _, d := range doc.Definitions {
		switch x := d.(type) {
		case *ast.FragmentDefinition:
			r.frags[x.Name.Value] = x
		case *ast.OperationDefinition:
			if opName == "" || (x.Name != nil && x.Name.Value == opName) {
				op = x
			}
		}
	}
	root := "Query"
	if op.Operation == "mutation" {
		root = "Mutation"
	}
	data := r.execSel(root, []*ast.SelectionSet{op.SelectionSet}, "")
	return data, r.calls
}

// zzDeepEqual compares response trees (maps, slices, leaves).
func zzDeepEqual(a, b interface{}) bool {
	switch x := a.(type) {
	case map[string]interface{}:
		y, ok := b.(map[string]interface{})
		if !ok || len(x) != len(y) {
			return false
		}
		for k, v := range x {
			w, ok := y[k]
			if !ok || !zzDeepEqual(v, w) {
				return false
			}
		}
		return true
	case []interface{}:
		y, ok := b.([]interface{})
		if !ok || len(x) != len(y) {
			return false
		}
		for i := range x {
			if !zzDeepEqual(x[i], y[i]) {
				return false
			}
		}
		return true
	case nil:
		return b == nil
	case string:
		y, ok := b.(string)
		return ok && zzStrEq(x, y)
	case int:
		y, ok := b.(int)
		return ok && x == y
	case bool:
		y, ok := b.(bool)
		return ok && x == y
	}
	return false
}

func zzParse(text string) *ast.Document {
	doc, err := parser.Parse(parser.ParseParams{Source: &source.Source{Body: []byte(text), Name: "zz"}})
	if err != nil {
		panic("harness template does not parse: " + text + ": " + err.Error())
	}
	return doc
}

func zzFragsOf(doc *ast.Document) map[string]*ast.FragmentDefinition {
	m := map[string]*ast.FragmentDefinition{}
	for _, d := range doc.Definitions {
		if x, ok := d.(*ast.FragmentDefinition); ok {
			m[x.Name.Value] = x
		}
	}
	return m
}

func zzOpOf(doc *ast.Document) *ast.OperationDefinition {
	for _, d := range doc.Definitions {
		if x, ok := d.(*ast.OperationDefinition); ok {
			return x
		}
	}
	return nil
}

func zzTryParse(text string) (*ast.Document, error) {
	return parser.Parse(parser.ParseParams{Source: &source.Source{Body: []byte(text), Name: "zz"}})
}
