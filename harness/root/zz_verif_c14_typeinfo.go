package graphql

import (
	"github.com/graphql-go/graphql/language/ast"
	"github.com/graphql-go/graphql/language/visitor"
)

// Type tracking during traversal (visitor.VisitWithTypeInfo + TypeInfo): at
// every node the tracker must report the schema types that apply at that
// position. The oracle below computes them top-down with explicit parameters
// (no stacks to unbalance) from the zoo table.

type zzTIExpect struct {
	typ    string // Type(): output type in force ("" = none)
	parent string // ParentType()
	input  string // InputType()
	field  string // FieldDef() name
}

type zzTIRef struct {
	want  map[ast.Node]zzTIExpect
	order []ast.Node
}

func zzTyStr(typ string, list, nonNull bool) string {
	if typ == "" {
		return ""
	}
	s := typ
	if list {
		s = "[" + s + "]"
	}
	if nonNull {
		s += "!"
	}
	return s
}

func zzNamedOfStr(s string) string {
	out := ""
	for i := 0; i < len(s); i++ {
		if s[i] != '[' && s[i] != ']' && s[i] != '!' {
			out += string(s[i])
		}
	}
	return out
}

func zzIsCompositeName(n string) bool {
	ts := zzTypeSpecOf(n)
	return ts != nil
}

func (r *zzTIRef) put(n ast.Node, e zzTIExpect) {
	r.want[n] = e
	r.order = append(r.order, n)
}

var zzTIInFields = map[string]string{"a": "Int", "b": "String!", "c": "Int", "d": "Color", "n": "In"}

// value: types inside a literal. in = expected input type at the value.
func (r *zzTIRef) value(v ast.Value, ctx zzTIExpect) {
	switch x := v.(type) {
	case *ast.ListValue:
		in := ctx.input
		// strip one non-null, then one list level
		if len(in) > 0 && in[len(in)-1] == '!' {
			in = in[:len(in)-1]
		}
		item := ""
		if len(in) > 1 && in[0] == '[' && in[len(in)-1] == ']' {
			item = in[1 : len(in)-1]
		}
		c := ctx
		c.input = item
		r.put(x, c)
		for _, e := range x.Values {
			r.value(e, c)
		}
	case *ast.ObjectValue:
		for _, f := range x.Fields {
			c := ctx
			c.input = ""
			if zzNamedOfStr(ctx.input) == "In" {
				c.input = zzTIInFields[f.Name.Value]
			}
			r.put(f, c)
			r.value(f.Value, c)
		}
	}
}

func (r *zzTIRef) directives(ds []*ast.Directive, ctx zzTIExpect) {
	for _, d := range ds {
		for _, a := range d.Arguments {
			c := ctx
			c.input = ""
			if (d.Name.Value == "skip" || d.Name.Value == "include") && a.Name.Value == "if" {
				c.input = "Boolean!"
			}
			r.put(a, c)
			r.value(a.Value, c)
		}
	}
}

func (r *zzTIRef) selectionSet(ss *ast.SelectionSet, ctx zzTIExpect) {
	if ss == nil {
		return
	}
	c := ctx
	c.parent = ""
	if n := zzNamedOfStr(ctx.typ); zzIsCompositeName(n) {
		c.parent = n
	}
	r.put(ss, c)
	for _, sel := range ss.Selections {
		switch x := sel.(type) {
		case *ast.Field:
			fc := c
			fc.typ, fc.field = "", ""
			var spec *zzFieldSpec
			if c.parent != "" {
				name := x.Name.Value
				switch {
				case name == "__typename":
					fc.typ, fc.field = "String!", "__typename"
				case name == "__schema" && c.parent == "Query":
					fc.typ, fc.field = "__Schema!", "__schema"
				case name == "__type" && c.parent == "Query":
					fc.typ, fc.field = "__Type", "__type"
				default:
					ts := zzTypeSpecOf(c.parent)
					if ts != nil && ts.kind != "union" {
						spec = zzFieldSpecOf(ts, name)
					}
					if spec != nil {
						fc.typ, fc.field = zzTyStr(spec.typ, spec.list, spec.nonNull), name
					}
				}
			}
			r.put(x, fc)
			for _, a := range x.Arguments {
				ac := fc
				ac.input = ""
				if spec != nil {
					for i := range spec.args {
						if spec.args[i].name == a.Name.Value {
							ac.input = zzTyStr(spec.args[i].typ, spec.args[i].list, spec.args[i].nonNull)
						}
					}
				}
				if fc.field == "__type" && a.Name.Value == "name" {
					ac.input = "String!"
				}
				r.put(a, ac)
				r.value(a.Value, ac)
			}
			r.directives(x.Directives, fc)
			if fc.field == "__schema" || fc.field == "__type" {
				continue // the introspection types are not modelled by the oracle
			}
			r.selectionSet(x.SelectionSet, fc)
		case *ast.InlineFragment:
			ic := c
			ic.typ = zzNamedOfStr(c.typ) // without a type condition: the enclosing named type
			if x.TypeCondition != nil {
				ic.typ = ""
				if zzKnownTypeName(x.TypeCondition.Name.Value) {
					ic.typ = x.TypeCondition.Name.Value
				}
			}
			r.put(x, ic)
			r.directives(x.Directives, ic)
			r.selectionSet(x.SelectionSet, ic)
		case *ast.FragmentSpread:
			r.directives(x.Directives, c)
		}
	}
}

func zzKnownTypeName(n string) bool {
	if zzTypeSpecOf(n) != nil {
		return true
	}
	switch n {
	case "String", "Int", "Boolean", "Color", "In", "Float", "ID":
		return true
	}
	return false
}

func zzASTTypeStr(t ast.Type) (string, bool) {
	switch x := t.(type) {
	case *ast.Named:
		return x.Name.Value, zzKnownTypeName(x.Name.Value)
	case *ast.List:
		s, ok := zzASTTypeStr(x.Type)
		return "[" + s + "]", ok
	case *ast.NonNull:
		s, ok := zzASTTypeStr(x.Type)
		return s + "!", ok
	}
	return "", false
}

func (r *zzTIRef) document(doc *ast.Document) {
	for _, d := range doc.Definitions {
		switch x := d.(type) {
		case *ast.OperationDefinition:
			c := zzTIExpect{}
			switch x.Operation {
			case ast.OperationTypeQuery:
				c.typ = "Query"
			case ast.OperationTypeMutation:
				c.typ = "Mutation"
			}
			r.put(x, c)
			for _, vd := range x.VariableDefinitions {
				vc := c
				if s, ok := zzASTTypeStr(vd.Type); ok {
					vc.input = s
				}
				r.put(vd, vc)
				if vd.DefaultValue != nil {
					r.value(vd.DefaultValue, vc)
				}
			}
			r.directives(x.Directives, c)
			r.selectionSet(x.SelectionSet, c)
		case *ast.FragmentDefinition:
			c := zzTIExpect{}
			if zzKnownTypeName(x.TypeCondition.Name.Value) {
				c.typ = x.TypeCondition.Name.Value
			}
			r.put(x, c)
			r.directives(x.Directives, c)
			r.selectionSet(x.SelectionSet, c)
		}
	}
}

var zzTIDocs = []string{
	`query Q($k: Int, $l: [Int!]! = [1]) { a o { x ... { y o { id } } ... on Obj { id } ...F } n { id ... on Obj { x } ... on Other { z } } u { __typename ... on Obj { y } } i(v: $k, w: 3) li(l: [1, $k]) lnn(l: [2]) io(in: {a: 1, b: "s", zz: [3]}) nope { z } ol @skip(if: true) { ynn ... { x } } onn { ... { y } } b } fragment F on Obj { o { y } n { id } }`,
	`mutation M { m1 mo { x ... @include(if: false) { y } } } subscription S { a } { __type(name: "Obj") { name } __schema { types { name } } e(c: RED) r(x: [1]) } fragment G on Nope { a } fragment H on Node { id ... on Obj { ynn } }`,
}

func zzTITypeString(t Type) string {
	if t == nil {
		return ""
	}
	switch x := t.(type) {
	case *NonNull:
		if x == nil || x.OfType == nil {
			return ""
		}
		return zzTITypeString(x.OfType) + "!"
	case *List:
		if x == nil || x.OfType == nil {
			return ""
		}
		return "[" + zzTITypeString(x.OfType) + "]"
	case *Object:
		if x == nil {
			return ""
		}
	case *Interface:
		if x == nil {
			return ""
		}
	case *Union:
		if x == nil {
			return ""
		}
	case *Scalar:
		if x == nil {
			return ""
		}
	case *Enum:
		if x == nil {
			return ""
		}
	case *InputObject:
		if x == nil {
			return ""
		}
	}
	return t.Name()
}

// ZZ_C14_typeinfo: while a visitor (that may skip one subtree) runs under
// VisitWithTypeInfo, the tracker reports at every definition, selection set,
// field, fragment, argument, list and object-field node the types that apply
// at that position.
func ZZ_C14_typeinfo() {
	di := zzChoice("doc", len(zzTIDocs))
	doc := zzParse(zzTIDocs[di])
	w := &zzWorld{}
	schema := zzBuildSchema(w)
	ref := &zzTIRef{want: map[ast.Node]zzTIExpect{}}
	ref.document(doc)
	// the visitor skips the subtree of one tracked node (or none)
	skipAt := zzChoice("skip", len(ref.order)+1)
	var skipNode ast.Node
	if skipAt < len(ref.order) {
		skipNode = ref.order[skipAt]
	}
	ti := NewTypeInfo(&TypeInfoConfig{Schema: &schema})
	seen := 0
	v := &visitor.VisitorOptions{
		Enter: func(p visitor.VisitFuncParams) (string, interface{}) {
			node, ok := p.Node.(ast.Node)
			if !ok {
				return visitor.ActionNoChange, nil
			}
			if e, tracked := ref.want[node]; tracked {
				seen++
				kind := node.GetKind()
				zzAssert(zzTITypeString(ti.Type()) == e.typ, "type tracking: Type() at a "+kind+" node: got "+zzTITypeString(ti.Type())+" want "+e.typ)
				_, isSS := node.(*ast.SelectionSet)
				_, isField := node.(*ast.Field)
				if !isSS {
					// the parent type in force is that of the enclosing selection set
				}
				if isSS || isField {
					pt := ""
					if ti.ParentType() != nil {
						pt = zzTITypeString(ti.ParentType().(Type))
					}
					zzAssert(pt == e.parent, "type tracking: ParentType() at a "+kind+" node: got "+pt+" want "+e.parent)
				}
				switch node.(type) {
				case *ast.Argument, *ast.ListValue, *ast.ObjectField, *ast.VariableDefinition:
					it := ""
					if ti.InputType() != nil {
						it = zzTITypeString(ti.InputType())
					}
					zzAssert(it == e.input, "type tracking: InputType() at a "+kind+" node: got "+it+" want "+e.input)
				}
				if isField {
					fd := ""
					if ti.FieldDef() != nil {
						fd = ti.FieldDef().Name
					}
					zzAssert(fd == e.field, "type tracking: FieldDef() at a Field node: got "+fd+" want "+e.field)
				}
			}
			if node == skipNode {
				return visitor.ActionSkip, nil
			}
			return visitor.ActionNoChange, nil
		},
	}
	visitor.Visit(doc, visitor.VisitWithTypeInfo(ti, v), nil)
	zzAssert(seen > 0, "no tracked node was visited")
	zzAssert(ti.Type() == nil && ti.ParentType() == nil && ti.InputType() == nil && ti.FieldDef() == nil, "type tracking stacks are not empty after the traversal")
	zzCover("end")
}
