package graphql

// ZZ_C04_list_items: lists of leaf values whose items may not serialise (an
// arbitrary int64 for Int, a value that is no member for an enum, nil): an item
// of a nullable item type becomes null with an error at its index; an item of a
// non-null item type nulls the list (or, for a non-null list at the root, the
// data) - a null never sits in a non-null position and every failure is
// reported with the item's path.
func ZZ_C04_list_items() {
	color := NewEnum(EnumConfig{Name: "Color", Values: EnumValueConfigMap{"RED": &EnumValueConfig{Value: 0}, "GREEN": &EnumValueConfig{Value: 1}}})
	x := zzInt64("x")
	ev := []interface{}{0, 1, 7, "RED", nil}[zzChoice("enumval", 5)]
	pos := zzChoice("pos", 3)
	ints := []interface{}{int64(1), int64(2), int64(3)}
	ints[pos] = x
	enums := []interface{}{0, 1, 0}
	enums[pos] = ev
	field := zzChoice("field", 5)
	q := NewObject(ObjectConfig{Name: "Query", Fields: Fields{
		"ln":   &Field{Type: NewList(Int), Resolve: func(p ResolveParams) (interface{}, error) { return ints, nil }},
		"nn":   &Field{Type: NewList(NewNonNull(Int)), Resolve: func(p ResolveParams) (interface{}, error) { return ints, nil }},
		"nnn":  &Field{Type: NewNonNull(NewList(NewNonNull(Int))), Resolve: func(p ResolveParams) (interface{}, error) { return ints, nil }},
		"le":   &Field{Type: NewList(color), Resolve: func(p ResolveParams) (interface{}, error) { return enums, nil }},
		"nne":  &Field{Type: NewList(NewNonNull(color)), Resolve: func(p ResolveParams) (interface{}, error) { return enums, nil }},
		"side": &Field{Type: Int, Resolve: func(p ResolveParams) (interface{}, error) { return 5, nil }},
	}})
	schema, err := NewSchema(SchemaConfig{Query: q})
	zzAssert(err == nil, "schema")
	name := []string{"ln", "nn", "nnn", "le", "nne"}[field]
	r := Do(Params{Schema: schema, RequestString: "{ side " + name + " }"})
	isEnum := field >= 3
	var bad bool
	if isEnum {
		bad = !(ev == 0 || ev == 1)
	} else {
		bad = x < -2147483648 || x > 2147483647
	}
	nonNullItem := field == 1 || field == 2 || field == 4
	if !bad {
		zzAssert(len(r.Errors) == 0, "no failure: no errors")
		d, _ := r.Data.(map[string]interface{})
		l, _ := d[name].([]interface{})
		zzAssert(len(l) == 3 && l[0] != nil && l[1] != nil && l[2] != nil && d["side"] == 5, "no failure: all items present")
		zzCover("ok")
		return
	}
	if nonNullItem {
		zzAssert(len(r.Errors) == 1, "a null item in a non-null position is reported once")
		zzAssert(zzErrPathStr(r.Errors[0].Path) == "/"+name+"/"+zzItoa(pos), "the error carries the item's path")
		if field == 2 {
			zzAssert(r.Data == nil, "a failing item of a non-null list at the root nulls the data")
		} else {
			d, _ := r.Data.(map[string]interface{})
			zzAssert(d != nil && d[name] == nil && d["side"] == 5, "a failing non-null item nulls the list and nothing else")
		}
		zzCover("nonnull")
		return
	}
	d, _ := r.Data.(map[string]interface{})
	l, _ := d[name].([]interface{})
	zzAssert(len(l) == 3 && l[pos] == nil && d["side"] == 5, "a failing nullable item is null in place")
	for i := range l {
		if i != pos {
			zzAssert(l[i] != nil, "other items stay")
		}
	}
	// an item that merely serialises to null need not be reported; if it is, the path is the item's
	for _, e := range r.Errors {
		zzAssert(zzErrPathStr(e.Path) == "/"+name+"/"+zzItoa(pos), "the error carries the item's path")
	}
	zzCover("nullable")
}
