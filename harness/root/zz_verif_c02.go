package graphql

var zzC02Menu = []string{
	"a", "x:a", "x:b", "a:b", "nope", "a{x}", "o", "o{x}", "o{nope}", "o{x{y}}",
	"i(v:1)", "i(v:\"s\")", "i(zz:1)", "i(v:1,v:2)", "i(v:$k)", "i(v:$s)", "i(v:3000000000)",
	"r", "r(x:1)", "r(x:$k)", "r(x:$kd)", "r(x:$kn)",
	"e(c:RED)", "e(c:PINK)", "e(c:\"RED\")",
	"io(in:{b:\"x\"})", "io(in:{a:1})", "io(in:{b:\"x\",zz:1})", "io(in:{b:\"x\",b:\"y\"})", "io(in:{b:$s,a:$k})", "io(in:{b:$k})", "io(in:{b:\"x\",n:{b:\"y\",a:1,a:2}})", "io(in:{b:\"x\",n:{a:1}})", "io(in:{b:\"x\",n:{b:\"y\",n:{b:$k}}})",
	"li(l:[1,2])", "li(l:1)", "li(l:[\"a\"])", "li(l:[$k])", "li(l:$k)",
	"a @skip(if:true)", "a @skip", "a @nope", "a @skip(iff:true)", "a @skip(if:1)", "a @deprecated", "a @skip(if:$b)", "a @skip(if:$k)", "a @skip(if:true,if:false)",
	"...F", "...G", "...Missing", "... on Query{a}", "... on Obj{x}", "... on Nope{a}", "... on String{a}", "... on Node{id}",
	"n{... on Obj{x} ... on Other{z}}", "n{... on Query{a}}", "n{id x}", "u{id}", "u{__typename ... on Obj{id}}", "o{...OF}", "o{...F}",
	"o{x} o{y}", "o{x:y} o{x}", "x:i(v:1) x:i(v:2)", "...X1", "n{... on Obj{t:x} ... on Other{t:z}}", "n{... on Obj{t:x} ... on Node{t:id}}", "ol{x} ol{y}", "o{o{x}} o{o{x:y}}",
	"ol{... {x}}", "onn{... @skip(if:true){y}}", "ol{... on Obj{x}}",
	// the same key under mutually exclusive parents: a leaf against a composite value, lists and non-null wrappers
	"n{... on Obj{t:o{id}} ... on Other{t:z}}", "n{... on Other{t:z} ... on Obj{t:o{id}}}", "n{... on Obj{t:ynn} ... on Other{t:z}}", "u{... on Obj{t:o{id}} ... on Other{t:id}}",
	"__typename", "__schema{types{name}}", "__type(name:\"Obj\"){name}", "__type(name:1){name}", "__type{name}",
}

var zzC02Frags = map[string]string{
	"F":  " fragment F on Query{a ...G}",
	"G":  " fragment G on Query{b}",
	"OF": " fragment OF on Obj{y}",
	"X1": " fragment X1 on Query{...X2}",
	"X2": " fragment X2 on Query{x:b}",
}

var zzC02VarDefs = map[string]string{
	"$kd": "$kd:Int=1", "$kn": "$kn:Int!", "$k": "$k:Int", "$s": "$s:String", "$b": "$b:Boolean!",
}

func zzC02AutoDoc(body string) string {
	frags := ""
	need := func(n string) bool { return zzContains(body+frags, "..."+n) }
	for _, n := range []string{"F", "G", "OF", "X1", "X2"} {
		if need(n) {
			frags += zzC02Frags[n]
		}
	}
	all := body + frags
	vars := ""
	for _, n := range []string{"$kd", "$kn", "$k", "$s", "$b"} {
		// "$k" must not match "$kd"/"$kn"
		used := false
		for i := 0; i+len(n) <= len(all); i++ {
			if all[i:i+len(n)] == n {
				next := byte(' ')
				if i+len(n) < len(all) {
					next = all[i+len(n)]
				}
				if !(next >= 'a' && next <= 'z') {
					used = true
				}
			}
		}
		if used {
			vars += " " + zzC02VarDefs[n]
		}
	}
	head := "query Q"
	if vars != "" {
		head += "(" + vars + ")"
	}
	return head + "{ " + body + " }" + frags
}

type zzRuleCase struct {
	name string
	rule ValidationRuleFn
	ref  func(v *zzRefVal) bool
}

var zzRuleCases = []zzRuleCase{
	{"ArgumentsOfCorrectType", ArgumentsOfCorrectTypeRule, (*zzRefVal).argumentsOfCorrectType},
	{"DefaultValuesOfCorrectType", DefaultValuesOfCorrectTypeRule, (*zzRefVal).defaultValuesOfCorrectType},
	{"FieldsOnCorrectType", FieldsOnCorrectTypeRule, (*zzRefVal).fieldsOnCorrectType},
	{"FragmentsOnCompositeTypes", FragmentsOnCompositeTypesRule, (*zzRefVal).fragmentsOnCompositeTypes},
	{"KnownArgumentNames", KnownArgumentNamesRule, (*zzRefVal).knownArgumentNames},
	{"KnownDirectives", KnownDirectivesRule, (*zzRefVal).knownDirectives},
	{"KnownFragmentNames", KnownFragmentNamesRule, (*zzRefVal).knownFragmentNames},
	{"KnownTypeNames", KnownTypeNamesRule, (*zzRefVal).knownTypeNames},
	{"LoneAnonymousOperation", LoneAnonymousOperationRule, (*zzRefVal).loneAnonymousOperation},
	{"NoFragmentCycles", NoFragmentCyclesRule, (*zzRefVal).noFragmentCycles},
	{"NoUndefinedVariables", NoUndefinedVariablesRule, (*zzRefVal).noUndefinedVariables},
	{"NoUnusedFragments", NoUnusedFragmentsRule, (*zzRefVal).noUnusedFragments},
	{"NoUnusedVariables", NoUnusedVariablesRule, (*zzRefVal).noUnusedVariables},
	{"OverlappingFieldsCanBeMerged", OverlappingFieldsCanBeMergedRule, (*zzRefVal).overlappingFields},
	{"PossibleFragmentSpreads", PossibleFragmentSpreadsRule, (*zzRefVal).possibleFragmentSpreads},
	{"ProvidedNonNullArguments", ProvidedNonNullArgumentsRule, (*zzRefVal).providedNonNullArguments},
	{"ScalarLeafs", ScalarLeafsRule, (*zzRefVal).scalarLeafs},
	{"UniqueArgumentNames", UniqueArgumentNamesRule, (*zzRefVal).uniqueArgumentNames},
	{"UniqueFragmentNames", UniqueFragmentNamesRule, (*zzRefVal).uniqueFragmentNames},
	{"UniqueInputFieldNames", UniqueInputFieldNamesRule, (*zzRefVal).uniqueInputFieldNames},
	{"UniqueOperationNames", UniqueOperationNamesRule, (*zzRefVal).uniqueOperationNames},
	{"UniqueVariableNames", UniqueVariableNamesRule, (*zzRefVal).uniqueVariableNames},
	{"VariablesAreInputTypes", VariablesAreInputTypesRule, (*zzRefVal).variablesAreInputTypes},
	{"VariablesInAllowedPosition", VariablesInAllowedPositionRule, (*zzRefVal).variablesInAllowedPosition},
}

// zzCheckRules compares every rule alone, and all rules together, with the reference validator.
func zzCheckRules(schema *Schema, text string) {
	doc, err := zzTryParse(text)
	if err != nil {
		zzFail("template does not parse: " + text)
	}
	v := zzNewRefVal(doc)
	any := false
	for _, rc := range zzRuleCases {
		want := rc.ref(v)
		vr := ValidateDocument(schema, doc, []ValidationRuleFn{rc.rule})
		got := !vr.IsValid
		if got != want {
			if want {
				zzFail("rule " + rc.name + " missed a violation in: " + text)
			}
			zzFail("rule " + rc.name + " reported a conforming document: " + text)
		}
		for _, e := range vr.Errors {
			zzAssert(len(e.Locations) >= 1, "rule "+rc.name+": error without location")
			for _, l := range e.Locations {
				zzAssert(l.Line >= 1 && l.Column >= 1, "rule "+rc.name+": location not 1-based")
			}
		}
		any = any || want
	}
	vr := ValidateDocument(schema, doc, nil)
	if vr.IsValid == any {
		if any {
			zzFail("all rules: invalid document accepted: " + text)
		}
		zzFail("all rules: valid document rejected: " + text)
	}
	r := Do(Params{Schema: *schema, RequestString: text, VariableValues: map[string]interface{}{"kn": 1, "b": true}})
	if any {
		zzAssert(r.Data == nil && len(r.Errors) >= 1, "Do executed an invalid document")
		zzCover("invalid")
	} else {
		zzCover("valid")
	}
}

// ZZ_C02_selections: every pair of selections from the menu, fragments and
// variable definitions supplied as needed.
func ZZ_C02_selections() {
	w := &zzWorld{}
	schema := zzBuildSchema(w)
	body := ""
	for i := 0; i < zzParam("W", 2); i++ {
		body += " " + zzC02Menu[zzChoice("pick"+zzItoa(i), len(zzC02Menu))]
	}
	zzCheckRules(&schema, zzC02AutoDoc(body))
}

var zzC02FragCfgs = []string{
	"",
	" fragment F on Query{a}",
	" fragment F on Query{a} fragment F on Query{b}",
	" fragment F on Query{...G} fragment G on Query{...F}",
	" fragment F on Query{...F}",
	" fragment F on Query{...G} fragment G on Query{...H} fragment H on Query{a ...F}",
	" fragment F on Query{a} fragment U on Query{b}",
	" fragment F on Query{a} fragment U on Query{...U2} fragment U2 on Query{b}",
	" fragment F on String{a}",
	" fragment F on Nope{a}",
	" fragment F on Obj{x}",
	" fragment F on Mutation{m1}",
	" fragment F on Query{x:b}",
	" fragment F on Query{...G} fragment G on Query{x:b}",
	" fragment F on Query{...G} fragment G on Query{...H} fragment H on Query{x:b}",
	" fragment F on Query{o{...G}} fragment G on Obj{x:y}",
	" fragment F on Query{a @skip(if:$k)}",
	" fragment F on Query{i(v:$u)}",
	" fragment F on Query @skip(if:true){a}",
	" fragment F on Node{id}",
	" fragment F on Query{...H} fragment G on Query{...H} fragment H on Query{i(v:$u)}",
	" fragment F on Query{...G ...H} fragment G on Query{...H a} fragment H on Query{i(v:$u) ...G}",
	" fragment G on Obj{ k:o{ v:x } } fragment F on Obj{ v:y }",
	" fragment F on Query @onop @skip(if:true){ a }",
}

// ZZ_C02_fragments: fragment topologies and definitions.
func ZZ_C02_fragments() {
	w := &zzWorld{}
	schema := zzBuildSchema(w)
	roots := []string{"{ ...F }", "{ x:a ...F }", "{ a }", "query Q($k:Int){ ...F i(v:$k) }", "{ o{x ...F} }", "{ ...F ...F }", "{ n{...F} }",
		"query A($u:Int){ ...F ...G } query B{ ...G }", "query A{ ...F ...G } query B($u:Int){ ...G }", "query A($u:Int){ ...F ...G } query B($u:String){ ...G }",
		"query A($u:Int){ ...F } query B{ ...G } query C($u:Int){ ...H }",
		"query Q @onop { a }", "mutation M @onop { m1 }", "subscription S @onop { a }", "{ a @onop ...F }",
		// the same (fields, fragment) pair met first under mutually exclusive parents, then under the same parent type
		"{ n{ ... on Obj{...G} ... on Query{ k:o{...F} } } o{ ...G k:o{...F} } }",
		"{ o{ ...G k:o{...F} } n{ ... on Obj{...G} ... on Query{ k:o{...F} } } }"}
	root := roots[zzChoice("root", len(roots))]
	cfg := zzC02FragCfgs[zzChoice("frags", len(zzC02FragCfgs))]
	zzCheckRules(&schema, root+cfg)
}

var zzC02VarCfgs = []string{
	"", "($k:Int)", "($k:Int $k:Int)", "($k:Int $s:String)", "($k:Int=1)", "($k:Int!=1)", "($k:Int=\"x\")", "($k:Int!)", "($k:[Int])", "($k:[Int!]!)",
	"($k:String)", "($k:Obj)", "($k:Nope)", "($k:Color=RED)", "($k:Color=PINK)", "($k:In={b:\"x\"})", "($k:In={a:1})", "($k:Boolean!)", "($k:Boolean)", "($k:[Int]=[1,\"x\"])",
}

// ZZ_C02_variables: variable definitions against usages, and operation sets.
func ZZ_C02_variables() {
	w := &zzWorld{}
	schema := zzBuildSchema(w)
	uses := []string{"a", "i(v:$k)", "r(x:$k)", "li(l:$k)", "li(l:[$k])", "e(c:$k)", "io(in:$k)", "io(in:{b:\"x\",a:$k})", "a @skip(if:$k)", "...F", "i(v:$k) i(w:$k)", "i(v:$u)", "lnn(l:$k)", "lnn(l:[$k])", "lnn(l:[1,$k])"}
	use := uses[zzChoice("use", len(uses))]
	vd := zzC02VarCfgs[zzChoice("vars", len(zzC02VarCfgs))]
	frag := ""
	if zzContains(use, "...F") {
		frag = " fragment F on Query{i(v:$k)}"
	}
	ops := zzChoice("ops", 5)
	text := "query Q" + vd + "{ " + use + " }"
	switch ops {
	case 1:
		text += " query R{ a }"
	case 2:
		text += " query Q{ a }"
	case 3:
		text += " { a }"
	case 4:
		text = "query " + vd2anon(vd) + "{ " + use + " } { b }"
	}
	zzCheckRules(&schema, text+frag)
}

func vd2anon(vd string) string { return vd }
