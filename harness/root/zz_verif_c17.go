package graphql

import (
	"context"
	"errors"

	"github.com/graphql-go/graphql/gqlerrors"
)

const (
	zzHInit = iota
	zzHParseStart
	zzHParseFinish
	zzHValStart
	zzHValFinish
	zzHExecStart
	zzHExecFinish
	zzHResolveStart
	zzHResolveFinish
	zzHHasResult
	zzHGetResult
	zzNumHooks
)

var zzHookNames = []string{"Init", "ParseDidStart", "ParseFinish", "ValidationDidStart", "ValidationFinish", "ExecutionDidStart", "ExecutionFinish", "ResolveFieldDidStart", "ResolveFieldFinish", "HasResult", "GetResult"}

type zzEvent struct {
	ext   int
	hook  int
	flag  bool // finish hooks: did the phase report a failure / carry a result
}

type zzExtLog struct {
	events []zzEvent
}

type zzExt struct {
	idx       int
	name      string
	log       *zzExtLog
	faultHook int // -1 none
	faultKind int
	hasResult bool
	faultsHit *int
}

// nilFinish: fault kind 3 on a start hook = the hook returns a nil finish function
func (e *zzExt) nilFinish(h int) bool { return h == e.faultHook && e.faultKind == 3 }

type zzBadErr struct{}

func (zzBadErr) Error() string { panic("Error method boom") }

func (e *zzExt) maybeFault(h int) {
	if h == e.faultHook && e.faultKind != 3 {
		*e.faultsHit++
		switch e.faultKind {
		case 0:
			panic(errors.New("ext boom"))
		case 1:
			panic("ext boom")
		case 4: // an error value whose Error method cannot be called: a nil pointer in an error interface
			var ne *gqlerrors.Error
			panic(error(ne))
		case 5: // an error value whose Error method panics itself
			panic(zzBadErr{})
		default:
			panic(42)
		}
	}
}

func (e *zzExt) ev(h int, flag bool) { e.log.events = append(e.log.events, zzEvent{e.idx, h, flag}) }

func (e *zzExt) Init(ctx context.Context, p *Params) context.Context {
	e.ev(zzHInit, false)
	e.maybeFault(zzHInit)
	return ctx
}
func (e *zzExt) Name() string { return e.name }
func (e *zzExt) ParseDidStart(ctx context.Context) (context.Context, ParseFinishFunc) {
	e.ev(zzHParseStart, false)
	e.maybeFault(zzHParseStart)
	if e.nilFinish(zzHParseStart) {
		return ctx, nil
	}
	return ctx, func(err error) {
		e.ev(zzHParseFinish, err != nil)
		e.maybeFault(zzHParseFinish)
	}
}
func (e *zzExt) ValidationDidStart(ctx context.Context) (context.Context, ValidationFinishFunc) {
	e.ev(zzHValStart, false)
	e.maybeFault(zzHValStart)
	if e.nilFinish(zzHValStart) {
		return ctx, nil
	}
	return ctx, func(errs []gqlerrors.FormattedError) {
		e.ev(zzHValFinish, len(errs) > 0)
		e.maybeFault(zzHValFinish)
	}
}
func (e *zzExt) ExecutionDidStart(ctx context.Context) (context.Context, ExecutionFinishFunc) {
	e.ev(zzHExecStart, false)
	e.maybeFault(zzHExecStart)
	if e.nilFinish(zzHExecStart) {
		return ctx, nil
	}
	return ctx, func(r *Result) {
		e.ev(zzHExecFinish, r != nil)
		e.maybeFault(zzHExecFinish)
	}
}
func (e *zzExt) ResolveFieldDidStart(ctx context.Context, i *ResolveInfo) (context.Context, ResolveFieldFinishFunc) {
	e.ev(zzHResolveStart, false)
	e.maybeFault(zzHResolveStart)
	if e.nilFinish(zzHResolveStart) {
		return ctx, nil
	}
	return ctx, func(v interface{}, err error) {
		e.ev(zzHResolveFinish, err != nil)
		e.maybeFault(zzHResolveFinish)
	}
}
func (e *zzExt) HasResult() bool {
	e.ev(zzHHasResult, false)
	e.maybeFault(zzHHasResult)
	return e.hasResult
}
func (e *zzExt) GetResult(ctx context.Context) interface{} {
	e.ev(zzHGetResult, false)
	e.maybeFault(zzHGetResult)
	return "res"
}

var zzC17Requests = []struct {
	text    string
	outcome string
}{
	{"{ a o{x} }", "success"},
	{"{ a", "syntax"},
	{"{ nope }", "validation"},
	{"query($v:Boolean!){ a @skip(if:$v) }", "variable"}, // $v not supplied
	{"{ a o{ynn} }", "field"},                           // ynn fails
	{"{ a o{ynn x} b }", "fieldpanic"},                  // the ynn resolver panics
}

// ZZ_C17_hooks: hooks are balanced, ordered, told the phase outcome and
// fault-isolated for every request outcome, 1..2 extensions and one faulty hook
// panicking with an error, a string or an int.
func ZZ_C17_hooks() {
	ri := zzChoice("req", len(zzC17Requests))
	req := zzC17Requests[ri]
	next := 1 + zzChoice("next", zzParam("E", 2))
	log := &zzExtLog{}
	faultsHit := 0
	fe := zzChoice("fext", next)
	fh := zzChoice("fhook", zzNumHooks+1) - 1 // -1 = no fault
	fk := 0
	if fh >= 0 {
		fk = zzChoice("fkind", 6)
		if fk == 3 {
			// a nil finish function only makes sense for the four start hooks
			zzAssume(fh == zzHParseStart || fh == zzHValStart || fh == zzHExecStart || fh == zzHResolveStart)
		}
	}
	sameName := next == 2 && zzChoice("samename", 2) == 1
	var exts []Extension
	for i := 0; i < next; i++ {
		e := &zzExt{idx: i, name: "ext" + zzItoa(i), log: log, faultHook: -1, hasResult: true, faultsHit: &faultsHit}
		if sameName {
			e.name = "ext"
		}
		if i == fe {
			e.faultHook, e.faultKind = fh, fk
		}
		exts = append(exts, e)
	}
	w := &zzWorld{}
	if req.outcome == "field" {
		w.hook = func(parent, field string, p ResolveParams) (interface{}, error, bool) {
			if field == "ynn" {
				return nil, errors.New("boom"), true
			}
			return nil, nil, false
		}
	}
	if req.outcome == "fieldpanic" {
		w.hook = func(parent, field string, p ResolveParams) (interface{}, error, bool) {
			if field == "ynn" {
				panic("resolver boom")
			}
			return nil, nil, false
		}
	}
	schema := zzBuildSchema(w)
	schema.AddExtensions(exts...)
	// a phase whose start hook panicked in some extension is abandoned; the
	// extensions that saw it start are told it ended in failure
	abortedParse := fk != 3 && fh == zzHParseStart
	abortedVal := fk != 3 && fh == zzHValStart
	var r *Result
	zzGuard("Do with extensions", func() { r = Do(Params{Schema: schema, RequestString: req.text}) })
	zzAssert(r != nil, "nil result")
	// every fault that fired is reported as an error entry
	if faultsHit > 0 {
		zzAssert(len(r.Errors) >= 1, "a panicking hook left no error in the result")
	}
	// per-extension protocol check
	for i := 0; i < next; i++ {
		var seq []zzEvent
		for _, e := range log.events {
			if e.ext == i {
				seq = append(seq, e)
			}
		}
		// phase order and balance
		open := -1 // currently open phase start hook, -1 none
		stage := 0 // 0 before init, 1 after init, 2 parse done, 3 validation done, 4 exec done
		resolveOpen := false
		nResolveStart := 0
		faulted := func(h int) bool { return i == fe && fh == h && fk != 3 }
		// a start hook that returned a nil finish function: the phase runs, nothing is to be called at its end
		nilFin := func(h int) bool { return i == fe && fh == h && fk == 3 }
		for _, e := range seq {
			switch e.hook {
			case zzHInit:
				zzAssert(stage == 0, "Init called twice or late")
				stage = 1
			case zzHParseStart:
				zzAssert(stage == 1 && open == -1, "ParseDidStart out of order")
				if !faulted(zzHParseStart) {
					open = zzHParseStart
				}
			case zzHParseFinish:
				zzAssert(open == zzHParseStart, "ParseFinish without a started parse phase")
				zzAssert(e.flag == (req.outcome == "syntax" || abortedParse), "ParseFinish told the wrong outcome")
				open, stage = -1, 2
			case zzHValStart:
				if open == zzHParseStart && nilFin(zzHParseStart) {
					open, stage = -1, 2
				}
				zzAssert(stage == 2 && open == -1, "ValidationDidStart out of order")
				if !faulted(zzHValStart) {
					open = zzHValStart
				}
			case zzHValFinish:
				zzAssert(open == zzHValStart, "ValidationFinish without a started validation phase")
				zzAssert(e.flag == (req.outcome == "validation" || abortedVal), "ValidationFinish told the wrong outcome")
				open, stage = -1, 3
			case zzHExecStart:
				if open == zzHValStart && nilFin(zzHValStart) {
					open, stage = -1, 3
				}
				zzAssert(stage == 3 && open == -1, "ExecutionDidStart out of order")
				if !faulted(zzHExecStart) {
					open = zzHExecStart
				}
			case zzHExecFinish:
				zzAssert(open == zzHExecStart && !resolveOpen, "ExecutionFinish without a started execution phase")
				zzAssert(e.flag, "ExecutionFinish received no result")
				open, stage = -1, 4
			case zzHResolveStart:
				zzAssert(open == zzHExecStart && !resolveOpen, "ResolveFieldDidStart outside the execution phase")
				nResolveStart++
				if !faulted(zzHResolveStart) && !nilFin(zzHResolveStart) {
					resolveOpen = true
				}
			case zzHResolveFinish:
				zzAssert(resolveOpen, "ResolveFieldFinish without a start")
				resolveOpen = false
			}
		}
		if open >= 0 && nilFin(open) {
			open = -1 // nothing to call for a phase whose start hook returned no finish function
			if stage == 3 {
				stage = 4
			}
		}
		zzAssert(open == -1 && !resolveOpen, "a started phase was never finished")
		if stage == 4 || open == zzHExecStart {
			zzAssert(nResolveStart == len(w.calls), "one resolve notification per executed field")
		}
	}
	zzCover("end")
}
