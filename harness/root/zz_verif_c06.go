package graphql

import (
	"errors"

	"github.com/graphql-go/graphql/language/printer"
)

// zzPoolQuery builds pool entry i; step distinguishes the symbolic literals of
// different history steps.
func zzPoolQuery(i int, step string) string {
	digit := func(name string) string {
		d := zzString(name+step, 1)
		zzAssume(zzAnd(d[0] >= '0', d[0] <= '9'))
		return d
	}
	switch i {
	case 0:
		return "{ i(v:" + digit("d") + ") }"
	case 1:
		return "{ i(w:" + digit("d") + ") }"
	case 2:
		return "{ a @skip(if:true) b }"
	case 3:
		return "{ a b }"
	case 4:
		return "query($k:Int=1){ i(v:$k) }"
	case 5:
		return "query($k:Int=2){ i(v:$k) }"
	case 6:
		return "{ x:i(v:" + digit("d") + ") i(v:" + digit("e") + ") }"
	case 7:
		return "{ a ... @include(if:false){ b } }"
	case 8:
		return "{ a ...{ b } }"
	case 9:
		return "{ e(c:GREEN) }"
	case 10:
		return "{ e(c:BLUE) }"
	case 11:
		return "{ i(v:1) i(v:1) }"
	case 12:
		// literals inside fragment definitions stay in the text: the key must tell them apart
		return "{ ...S } fragment S on Query{ s(t:\"" + zzNameString("c"+step, zzParam("SLEN", 6)) + "\") }"
	case 13:
		return "{ ...S } fragment S on Query{ s(t:\"x\",u:\"y\") }"
	case 14:
		return "{ x:a }"
	case 15:
		return "{ ...S } fragment S on Query @skip(if:true){ a }" // directive on a fragment definition is not valid for skip; kept to exercise invalid documents
	case 16:
		return "{ s(t:\"a  b\") }" // white space inside a string literal is significant
	case 17:
		return "{ s(t:\"a b\") }"
	case 18:
		return "{ a #x\n b\n}" // the line break ends the comment
	case 19:
		return "{ a #x b\n}"
	case 20:
		return "query A{ a } query B{ b }"
	case 21:
		return "query A{ a } query B{ nope }" // the other operation is invalid: the document is
	case 22:
		return "query A{ a } fragment U on Query{ b }" // unused fragment: invalid document
	case 23:
		return "query A{ a }"
	case 24:
		return "{ i(v:1) o{ynn} }" // ynn fails in zzC06World: error locations must be this request's
	case 25:
		return "{ i(v:100) o{ynn} }"
	case 26:
		return "query A{ a } query B{ b }" // the text of entry 20, requested with operation B
	case 27:
		return "query A{ a } query B{ b }" // ... and with an operation name the document lacks
	case 28:
		return "query Q($__pcv0: Int){ i(v:$__pcv0) r(x:5) }" // a client variable named like a synthetic one
	case 29:
		return "{ i(v:1) r(x:1) }" // the same literal in an Int and in an Int! position
	case 30:
		return "{ li(l:1) i(w:1) lnn(l:[1]) }" // ... in a [Int] (list of one), an Int and a [Int]! position
	case 31:
		return "{ s(t:\"x\") s2:s(u:\"x\") io(in:{b:\"x\"}) }" // ... in String and String! positions
	}
	return "{ a }"
}

// zzPoolOp: the operation name to request for pool entry i.
func zzPoolOp(i int) string {
	if i >= 20 && i <= 23 {
		return "A"
	}
	if i == 26 {
		return "B"
	}
	if i == 27 {
		return "C"
	}
	return ""
}

// zzNameString: n symbolic bytes restricted to characters that may appear inside a string literal unescaped.
func zzNameString(name string, n int) string {
	s := zzString(name, n)
	for i := 0; i < n; i++ {
		c := s[i]
		zzAssume(zzAnd(zzAnd(c >= 0x20, c < 0x7f), zzAnd(c != '"', c != '\\')))
	}
	return s
}

const zzPoolSize = 32

func zzSameResultNoLoc(a, b *Result) bool {
	if len(a.Errors) != len(b.Errors) || (a.Data == nil) != (b.Data == nil) {
		return false
	}
	for i := range a.Errors {
		if a.Errors[i].Message != b.Errors[i].Message || len(a.Errors[i].Path) != len(b.Errors[i].Path) {
			return false
		}
	}
	return a.Data == nil || zzDeepEqual(a.Data, b.Data)
}

func zzSameResult(a, b *Result) bool {
	if len(a.Errors) != len(b.Errors) {
		return false
	}
	for i := range a.Errors {
		if a.Errors[i].Message != b.Errors[i].Message || len(a.Errors[i].Path) != len(b.Errors[i].Path) {
			return false
		}
		if len(a.Errors[i].Locations) != len(b.Errors[i].Locations) {
			return false
		}
		for j := range a.Errors[i].Locations {
			if a.Errors[i].Locations[j] != b.Errors[i].Locations[j] {
				return false
			}
		}
	}
	if (a.Data == nil) != (b.Data == nil) {
		return false
	}
	if a.Data == nil {
		return true
	}
	return zzDeepEqual(a.Data, b.Data)
}

// zzC06Step serves one request through the cache and compares with Do.
func zzC06Step(c *PlanCache, schema *Schema, maxEntries int, normalize bool, qi int, text string) {
	op := zzPoolOp(qi)
	want := Do(Params{Schema: *schema, RequestString: text, OperationName: op})
	pr := c.Get(schema, text, op)
	var got *Result
	if pr.Plan != nil {
		got = ExecutePlan(pr.Plan, ExecuteParams{Schema: *schema, Args: pr.SynthArgs})
	} else {
		got = &Result{Errors: pr.Errors}
	}
	if !zzSameResult(want, got) {
		if normalize && zzSameResultNoLoc(want, got) {
			// recorded defect: with Normalize a plan is shared by requests whose literals have
			// different lengths, and error locations are those of the request that built it
			zzKnown("KF-C06-locations")
		}
		zzFail("response through the plan cache differs from Do")
	}
	if c != nil {
		zzAssert(len(c.entries) <= maxEntries, "cache holds more entries than configured")
		zzAssert(c.order.Len() == len(c.entries), "LRU list and index disagree")
	}
}

var zzC06Concrete = []int{2, 3, 4, 5, 7, 8, 9, 10, 11, 13, 14, 15, 16, 17, 18, 19, 20, 21, 22, 23, 24, 25, 26, 27, 28, 29, 30, 31}

// ZZ_C06_pairs: histories q0, q1, [Reset], q0 over the literal-free pool, every
// cache size 1..2, Normalize on and off, nil cache.
func ZZ_C06_pairs() {
	w := &zzWorld{hook: zzFailYnn}
	schema := zzBuildSchema(w)
	cfg := zzChoice("cfg", 5)
	normalize := cfg == 1 || cfg == 3
	maxEntries := 1
	if cfg >= 2 {
		maxEntries = 2
	}
	var c *PlanCache
	if cfg < 4 {
		c = NewPlanCache(PlanCacheOptions{Normalize: normalize, MaxEntries: maxEntries})
	}
	q0 := zzC06Concrete[zzChoice("q0", len(zzC06Concrete))]
	q1 := zzC06Concrete[zzChoice("q1", len(zzC06Concrete))]
	zzC06Step(c, &schema, maxEntries, normalize, q0, zzPoolQuery(q0, "0"))
	zzC06Step(c, &schema, maxEntries, normalize, q1, zzPoolQuery(q1, "1"))
	if zzChoice("reset", 2) == 1 {
		c.Reset()
	}
	zzC06Step(c, &schema, maxEntries, normalize, q0, zzPoolQuery(q0, "2"))
	// a same-shape schema with different pointers must not be served the first schema's plans
	w2 := &zzWorld{hook: zzFailYnn}
	schema2 := zzBuildSchema(w2)
	zzC06Step(c, &schema2, maxEntries, normalize, q1, zzPoolQuery(q1, "3"))
	zzCover("end")
}

// ZZ_C06_literals: requests whose literals are symbolic: the values handed
// back on a hit are this request's own.
func ZZ_C06_literals() {
	w := &zzWorld{}
	schema := zzBuildSchema(w)
	normalize := zzChoice("normalize", 2) == 1
	c := NewPlanCache(PlanCacheOptions{Normalize: normalize, MaxEntries: 2})
	pool := []int{0, 1, 6}
	q0 := pool[zzChoice("q0", len(pool))]
	q1 := pool[zzChoice("q1", len(pool))]
	zzC06Step(c, &schema, 2, normalize, q0, zzPoolQuery(q0, "0"))
	zzC06Step(c, &schema, 2, normalize, q1, zzPoolQuery(q1, "1"))
	zzC06Step(c, &schema, 2, normalize, q0, zzPoolQuery(q0, "2"))
	zzCover("end")
}

// ZZ_C06_encoding: a string literal that stays in the text (inside a fragment
// definition) has arbitrary content of SLEN bytes; whatever it is, it must not
// share a cache entry with a structurally different request.
func ZZ_C06_encoding() {
	w := &zzWorld{}
	schema := zzBuildSchema(w)
	normalize := zzChoice("normalize", 2) == 1
	c := NewPlanCache(PlanCacheOptions{Normalize: normalize, MaxEntries: 2})
	if zzChoice("order", 2) == 0 {
		zzC06Step(c, &schema, 2, normalize, 13, zzPoolQuery(13, "0"))
		zzC06Step(c, &schema, 2, normalize, 12, zzPoolQuery(12, "1"))
	} else {
		zzC06Step(c, &schema, 2, normalize, 12, zzPoolQuery(12, "0"))
		zzC06Step(c, &schema, 2, normalize, 13, zzPoolQuery(13, "1"))
	}
	zzCover("end")
}

// ZZ_C06_original_untouched: normalisation never modifies the document it is given.
func ZZ_C06_original_untouched() {
	w := &zzWorld{}
	schema := zzBuildSchema(w)
	qi := zzC06Concrete[zzChoice("q", len(zzC06Concrete))]
	text := zzPoolQuery(qi, "")
	doc := zzParse(text)
	before := printer.Print(doc).(string)
	normalizeDocument(&schema, doc, "")
	after := printer.Print(doc).(string)
	zzAssert(before == after, "normalizeDocument modified the original document")
	zzCover("end")
}

func zzFailYnn(parent, field string, p ResolveParams) (interface{}, error, bool) {
	if field == "ynn" {
		return nil, errors.New("boom"), true
	}
	return nil, nil, false
}


// ZZ_C06_variables: one prepared plan (or one cache entry) serves the same
// document with different variable values: what the first request's variables
// excluded must not be missing for the second, and vice versa.
func ZZ_C06_variables() {
	w := &zzWorld{}
	schema := zzBuildSchema(w)
	docs := []string{
		"query Q($v:Boolean!){ n{id} n @include(if:$v){... on Obj{x}} u{__typename} u @skip(if:$v){... on Obj{y}} }",
		"query Q($v:Boolean!){ o{x} o @skip(if:$v){y o{x}} ...F @include(if:$v) } fragment F on Query{ ol{id} }",
		"query Q($v:Boolean!,$k:Int){ i(v:$k) x:i(v:2,w:$k) @skip(if:$v) io(in:{b:\"x\",a:$k}) }",
	}
	text := docs[zzChoice("doc", len(docs))]
	mode := zzChoice("mode", 4) // 0 prepared plan, 1 plain cache, 2 normalising cache, 3 nil cache
	var plan *Plan
	var c *PlanCache
	switch mode {
	case 0:
		var err error
		plan, err = PlanQuery(&schema, zzParse(text), "")
		zzAssert(err == nil, "PlanQuery")
	case 1:
		c = NewPlanCache(PlanCacheOptions{MaxEntries: 2})
	case 2:
		c = NewPlanCache(PlanCacheOptions{MaxEntries: 2, Normalize: true})
	}
	for round := 0; round < 3; round++ {
		vars := map[string]interface{}{"v": zzBool("v" + zzItoa(round))}
		if zzContains(text, "$k") && zzChoice("hask"+zzItoa(round), 2) == 1 {
			vars["k"] = zzInt("k"+zzItoa(round), -1000, 1000)
		}
		want := Do(Params{Schema: schema, RequestString: text, VariableValues: vars})
		var got *Result
		if mode == 0 {
			got = ExecutePlan(plan, ExecuteParams{Schema: schema, Args: vars})
		} else {
			pr := c.Get(&schema, text, "")
			zzAssert(pr.Plan != nil, "valid document rejected by the plan cache")
			args := map[string]interface{}{}
			for k, v := range vars {
				args[k] = v
			}
			for k, v := range pr.SynthArgs {
				args[k] = v
			}
			got = ExecutePlan(pr.Plan, ExecuteParams{Schema: schema, Args: args})
		}
		zzAssert(zzSameResult(want, got), "response of a reused plan differs from Do for this request's variables")
	}
	zzCover("end")
}

// ZZ_C06_rejections: entries that hold only errors are as much bound to their
// schema and to their exact document as entries that hold a plan: a request
// rejected under one schema is answered afresh under a replacement schema (and
// the other way round), and a document that spreads an undefined fragment does
// not colour the entry of the next document that defines it.
func ZZ_C06_rejections() {
	normalize := zzChoice("normalize", 2) == 1
	mk := func(withB bool) Schema {
		fields := Fields{"a": &Field{Type: String, Resolve: func(p ResolveParams) (interface{}, error) { return "A", nil }},
			"o": &Field{Type: NewObject(ObjectConfig{Name: "Obj", Fields: Fields{"x": &Field{Type: String, Resolve: func(p ResolveParams) (interface{}, error) { return "X", nil }},
				"y": &Field{Type: String, Resolve: func(p ResolveParams) (interface{}, error) { return "Y", nil }}}}),
				Resolve: func(p ResolveParams) (interface{}, error) { return 1, nil }}}
		if withB {
			fields["b"] = &Field{Type: String, Resolve: func(p ResolveParams) (interface{}, error) { return "B", nil }}
		}
		s, err := NewSchema(SchemaConfig{Query: NewObject(ObjectConfig{Name: "Query", Fields: fields})})
		zzAssert(err == nil, "schema")
		return s
	}
	c := NewPlanCache(PlanCacheOptions{Normalize: normalize, MaxEntries: 4})
	same := func(s *Schema, text string, what string) {
		want := Do(Params{Schema: *s, RequestString: text})
		pr := c.Get(s, text, "")
		var got *Result
		if pr.Plan == nil {
			got = &Result{Errors: pr.Errors}
		} else {
			got = ExecutePlan(pr.Plan, ExecuteParams{Schema: *s, Args: pr.SynthArgs})
		}
		zzAssert((len(got.Errors) == 0) == (len(want.Errors) == 0), what+": the cache and a fresh execution disagree on whether the request fails")
		zzAssert((got.Data == nil) == (want.Data == nil) && (want.Data == nil || zzDeepEqual(got.Data, want.Data)), what+": data differs from a fresh execution")
	}
	switch zzChoice("scenario", 4) {
	case 0: // rejected under the old schema, valid under its replacement
		s1, s2 := mk(false), mk(true)
		same(&s1, "{ a b }", "old schema")
		same(&s2, "{ a b }", "replacement schema")
	case 1: // the other way round
		s1, s2 := mk(true), mk(false)
		same(&s1, "{ a b }", "old schema")
		same(&s2, "{ a b }", "replacement schema")
	case 2: // an undefined fragment, then the same spread with its definition
		s := mk(true)
		same(&s, "{ o{ ...F } }", "undefined fragment")
		same(&s, "{ o{ ...F } } fragment F on Obj{ x }", "fragment defined")
		same(&s, "{ o{ ...F } } fragment F on Obj{ y }", "fragment defined differently")
	default: // two failing documents around a good one
		s := mk(true)
		same(&s, "{ o{ ...G } }", "undefined fragment")
		same(&s, "{ o{ ...G ...F } } fragment F on Obj{ x } fragment G on Obj{ y }", "both defined")
		same(&s, "{ o{ ...G ...F } } fragment F on Obj{ y } fragment G on Obj{ y }", "another body")
	}
	zzCover("end")
}
