package graphql

// zzValidName: [_A-Za-z][_0-9A-Za-z]*, independent of the library's regexp.
func zzValidName(s string) bool {
	if len(s) == 0 {
		return false
	}
	for i := 0; i < len(s); i++ {
		c := s[i]
		ok := c == '_' || (c >= 'a' && c <= 'z') || (c >= 'A' && c <= 'Z') || (i > 0 && c >= '0' && c <= '9')
		if !ok {
			return false
		}
	}
	return true
}

func zzNamedOf(t Type) Type {
	for {
		switch x := t.(type) {
		case *NonNull:
			t = x.OfType
		case *List:
			t = x.OfType
		default:
			return t
		}
	}
}

func zzNoDoubleNonNull(t Type) bool {
	for t != nil {
		switch x := t.(type) {
		case *NonNull:
			if _, ok := x.OfType.(*NonNull); ok {
				return false
			}
			if x.OfType == nil {
				return false
			}
			t = x.OfType
		case *List:
			if x.OfType == nil {
				return false
			}
			t = x.OfType
		default:
			return true
		}
	}
	return false
}

func zzIsInputKind(t Type) bool {
	switch zzNamedOf(t).(type) {
	case *Scalar, *Enum, *InputObject:
		return true
	}
	return false
}

func zzIsOutputKind(t Type) bool {
	switch zzNamedOf(t).(type) {
	case *Scalar, *Enum, *Object, *Interface, *Union:
		return true
	}
	return false
}

func zzTypeEq(a, b Type) bool {
	switch x := a.(type) {
	case *NonNull:
		y, ok := b.(*NonNull)
		return ok && zzTypeEq(x.OfType, y.OfType)
	case *List:
		y, ok := b.(*List)
		return ok && zzTypeEq(x.OfType, y.OfType)
	}
	return a == b
}

// zzSubType: is `sub` usable where `super` is declared (covariance)?
func zzSubType(s *Schema, sub, super Type) bool {
	if zzTypeEq(sub, super) {
		return true
	}
	if sn, ok := sub.(*NonNull); ok {
		if pn, ok := super.(*NonNull); ok {
			return zzSubType(s, sn.OfType, pn.OfType)
		}
		return zzSubType(s, sn.OfType, super)
	}
	if _, ok := super.(*NonNull); ok {
		return false
	}
	if sl, ok := sub.(*List); ok {
		if pl, ok := super.(*List); ok {
			return zzSubType(s, sl.OfType, pl.OfType)
		}
		return false
	}
	if _, ok := super.(*List); ok {
		return false
	}
	if so, ok := sub.(*Object); ok {
		switch p := super.(type) {
		case *Interface:
			for _, i := range so.Interfaces() {
				if i == p {
					return true
				}
			}
		case *Union:
			for _, m := range p.Types() {
				if m == so {
					return true
				}
			}
		}
	}
	return false
}

// zzConsistent: the independent consistency checker over the public API.
func zzConsistent(s *Schema) string {
	tm := s.TypeMap()
	for name, t := range tm {
		if t == nil {
			return "nil type in type map"
		}
		if t.Name() != name {
			return "type map key differs from the type's name"
		}
		if !zzValidName(name) {
			return "illegal type name in type map: " + name
		}
		if len(name) >= 2 && name[0] == '_' && name[1] == '_' {
			// names beginning with __ are reserved for the introspection system
			builtin := false
			for _, n := range []string{"__Schema", "__Type", "__Field", "__InputValue", "__EnumValue", "__Directive", "__TypeKind", "__DirectiveLocation"} {
				if n == name {
					builtin = true
				}
			}
			if !builtin {
				return "reserved type name in type map: " + name
			}
		}
	}
	for _, n := range []string{"__Schema", "__Type", "__Field", "__InputValue", "__EnumValue", "__Directive", "__TypeKind", "__DirectiveLocation", "String", "Boolean"} {
		if tm[n] == nil {
			return "introspection type missing: " + n
		}
	}
	if s.QueryType() == nil {
		return "no query root"
	}
	inMap := func(t Type) bool {
		n := zzNamedOf(t)
		return n != nil && tm[n.Name()] == n
	}
	checkFields := func(owner string, fm FieldDefinitionMap) string {
		if len(fm) == 0 {
			return owner + " has no fields"
		}
		for fname, f := range fm {
			if !zzValidName(fname) || f.Name != fname {
				return "illegal field name on " + owner
			}
			if f.Type == nil || !zzNoDoubleNonNull(f.Type) {
				return "malformed field type on " + owner + "." + fname
			}
			if !zzIsOutputKind(f.Type) {
				return "field " + owner + "." + fname + " does not have an output type"
			}
			if !inMap(f.Type) {
				return "field type of " + owner + "." + fname + " is not in the type map"
			}
			for _, a := range f.Args {
				if !zzValidName(a.Name()) {
					return "illegal argument name on " + owner + "." + fname
				}
				if a.Type == nil || !zzNoDoubleNonNull(a.Type) {
					return "malformed argument type on " + owner + "." + fname
				}
				if !zzIsInputKind(a.Type) {
					return "argument " + owner + "." + fname + "(" + a.Name() + ":) does not have an input type"
				}
				if !inMap(a.Type) {
					return "argument type not in the type map"
				}
			}
		}
		return ""
	}
	for _, d := range s.Directives() {
		if d == nil {
			return "nil directive in the schema"
		}
		if !zzValidName(d.Name) {
			return "illegal directive name"
		}
		for _, a := range d.Args {
			if a == nil || !zzValidName(a.Name()) {
				return "illegal argument name on directive " + d.Name
			}
			if a.Type == nil || !zzNoDoubleNonNull(a.Type) {
				return "malformed argument type on directive " + d.Name
			}
			if !zzIsInputKind(a.Type) {
				return "argument @" + d.Name + "(" + a.Name() + ":) does not have an input type"
			}
			if !inMap(a.Type) {
				return "directive argument type not in the type map"
			}
		}
	}
	for name, t := range tm {
		switch x := t.(type) {
		case *Object:
			if m := checkFields(name, x.Fields()); m != "" {
				return m
			}
			for _, i := range x.Interfaces() {
				if i == nil || tm[i.Name()] != Type(i) {
					return "interface of " + name + " not in the type map"
				}
				ifields := i.Fields()
				ofields := x.Fields()
				for fname, idef := range ifields {
					odef := ofields[fname]
					if odef == nil {
						return name + " lacks interface field " + i.Name() + "." + fname
					}
					if !zzSubType(s, odef.Type, idef.Type) {
						return name + "." + fname + " is not a subtype of " + i.Name() + "." + fname
					}
					for _, ia := range idef.Args {
						var oa *Argument
						for _, c := range odef.Args {
							if c.Name() == ia.Name() {
								oa = c
							}
						}
						if oa == nil {
							return name + "." + fname + " lacks interface argument " + ia.Name()
						}
						if !zzTypeEq(oa.Type, ia.Type) {
							return name + "." + fname + "(" + ia.Name() + ":) type differs from the interface's"
						}
					}
					for _, oa := range odef.Args {
						found := false
						for _, ia := range idef.Args {
							if ia.Name() == oa.Name() {
								found = true
							}
						}
						if _, req := oa.Type.(*NonNull); !found && req {
							return name + "." + fname + " has an extra required argument " + oa.Name()
						}
					}
				}
				if !s.IsPossibleType(i, x) {
					return "IsPossibleType denies a declared implementer"
				}
				n := 0
				for _, p := range s.PossibleTypes(i) {
					if p == x {
						n++
					}
				}
				if n != 1 {
					return "PossibleTypes does not list a declared implementer exactly once"
				}
			}
		case *Interface:
			if m := checkFields(name, x.Fields()); m != "" {
				return m
			}
			for _, p := range s.PossibleTypes(x) {
				declared := false
				for _, i := range p.Interfaces() {
					if i == x {
						declared = true
					}
				}
				if !declared {
					return "PossibleTypes lists an object that does not declare the interface"
				}
			}
		case *Union:
			if len(x.Types()) == 0 {
				return "union " + name + " has no members"
			}
			for mi, m := range x.Types() {
				for mj, m2 := range x.Types() {
					if mi < mj && m == m2 {
						return "union " + name + " lists a member twice"
					}
				}
				if m == nil || tm[m.Name()] != Type(m) {
					return "union member not in the type map"
				}
				if !s.IsPossibleType(x, m) {
					return "IsPossibleType denies a union member"
				}
			}
		case *Enum:
			if len(x.Values()) == 0 {
				return "enum " + name + " has no values"
			}
			for _, v := range x.Values() {
				if !zzValidName(v.Name) {
					return "illegal enum value name"
				}
			}
		case *InputObject:
			if len(x.Fields()) == 0 {
				return "input object " + name + " has no fields"
			}
			for fname, f := range x.Fields() {
				if !zzValidName(fname) {
					return "illegal input field name on " + name
				}
				if f.Type == nil || !zzNoDoubleNonNull(f.Type) {
					return "malformed input field type"
				}
				if !zzIsInputKind(f.Type) {
					return "input field " + name + "." + fname + " does not have an input type"
				}
				if !inMap(f.Type) {
					return "input field type not in the type map"
				}
			}
		}
	}
	return ""
}

// ZZ_C11_config: NewSchema on a configuration with one injected malformation
// (or none) returns an error or a consistent schema, and never panics.
func ZZ_C11_config() {
	defect := zzChoice("defect", 34)
	thunks := zzChoice("thunks", 2) == 1
	// route 0: everything supplied to NewSchema; 1..5: the object (directly, via a
	// union, inside wrappers) or nil is appended to a schema built without it
	route := zzChoice("route", 7)
	// the application may have looked at the object's fields / interfaces (in
	// either order) before the schema is built: lazily parked errors must survive
	touch := zzChoice("touch", 3)
	if defect >= 29 {
		zzAssume(route == 0) // directive malformations concern NewSchema only
	}
	name2 := func(tag string) string { return zzString(tag, 2) } // arbitrary 2-byte name
	color := NewEnum(EnumConfig{Name: "Color", Values: EnumValueConfigMap{"RED": &EnumValueConfig{Value: 0}}})
	in := NewInputObject(InputObjectConfig{Name: "In", Fields: InputObjectConfigFieldMap{"a": &InputObjectFieldConfig{Type: Int}}})
	nodeFields := Fields{"id": &Field{Type: ID, Args: FieldConfigArgument{"x": &ArgumentConfig{Type: Int}}},
		"self": &Field{Type: String, Args: FieldConfigArgument{"x": &ArgumentConfig{Type: Int}, "y": &ArgumentConfig{Type: NewNonNull(Int)}}}}
	node := NewInterface(InterfaceConfig{Name: "Node", Fields: nodeFields, ResolveType: func(p ResolveTypeParams) *Object { return nil }})
	objFields := Fields{
		"id":   &Field{Type: NewNonNull(ID), Args: FieldConfigArgument{"x": &ArgumentConfig{Type: Int}}},
		"self": &Field{Type: String, Args: FieldConfigArgument{"x": &ArgumentConfig{Type: Int}, "y": &ArgumentConfig{Type: NewNonNull(Int)}}},
		"c":    &Field{Type: color, Args: FieldConfigArgument{"in": &ArgumentConfig{Type: in}}},
	}
	// an interface nobody implements, whose argument type is referenced nowhere else
	loneIn := NewInputObject(InputObjectConfig{Name: "LoneIn", Fields: InputObjectConfigFieldMap{"a": &InputObjectFieldConfig{Type: Int}}})
	lone := NewInterface(InterfaceConfig{Name: "Lone", Fields: Fields{"g": &Field{Type: String, Args: FieldConfigArgument{"k": &ArgumentConfig{Type: NewList(loneIn)}}}},
		ResolveType: func(p ResolveTypeParams) *Object { return nil }})
	qFields := Fields{"node": &Field{Type: node}, "lone": &Field{Type: lone}}
	var schemaCfg SchemaConfig
	var uni *Union
	objName := "Obj"
	switch defect {
	case 1:
		objName = "Color" // duplicate name across kinds
	case 2:
		objName = name2("tname") // arbitrary type name
	case 3:
		objFields = Fields{}
	case 4:
		color = NewEnum(EnumConfig{Name: "Color", Values: EnumValueConfigMap{}})
		objFields["c"] = &Field{Type: color}
	case 7:
		delete(objFields, "self")
	case 8:
		objFields["self"] = &Field{Type: Int} // not a subtype of String
	case 9:
		objFields["id"] = &Field{Type: NewNonNull(ID)} // interface argument missing
	case 10:
		objFields["id"] = &Field{Type: NewNonNull(ID), Args: FieldConfigArgument{"x": &ArgumentConfig{Type: String}}}
	case 11:
		objFields["id"] = &Field{Type: NewNonNull(ID), Args: FieldConfigArgument{"x": &ArgumentConfig{Type: Int}, "y": &ArgumentConfig{Type: NewNonNull(Int)}}}
	case 12:
		objFields["nn"] = &Field{Type: NewNonNull(NewNonNull(Int))}
	case 13:
		objFields["bad"] = &Field{Type: in} // input type in output position
	case 14:
		objFields["bad"] = &Field{Type: String, Args: FieldConfigArgument{"o": &ArgumentConfig{Type: node}}} // output type as argument
	case 15:
		in = NewInputObject(InputObjectConfig{Name: "In", Fields: InputObjectConfigFieldMap{"a": &InputObjectFieldConfig{Type: node}}})
		objFields["c"] = &Field{Type: color, Args: FieldConfigArgument{"in": &ArgumentConfig{Type: in}}}
	case 17:
		objFields[name2("fname")] = &Field{Type: Int} // arbitrary field name
	case 18:
		objFields["ok"] = &Field{Type: Int, Args: FieldConfigArgument{name2("aname"): &ArgumentConfig{Type: Int}}}
	case 19:
		objFields["nil"] = &Field{Type: nil}
	case 20:
		in = NewInputObject(InputObjectConfig{Name: name2("iname"), Fields: InputObjectConfigFieldMap{"a": &InputObjectFieldConfig{Type: Int}}})
		objFields["c"] = &Field{Type: color, Args: FieldConfigArgument{"in": &ArgumentConfig{Type: in}}}
	case 21:
		in = NewInputObject(InputObjectConfig{Name: "In", Fields: InputObjectConfigFieldMap{name2("ifname"): &InputObjectFieldConfig{Type: Int}}})
		objFields["c"] = &Field{Type: color, Args: FieldConfigArgument{"in": &ArgumentConfig{Type: in}}}
	case 22:
		color = NewEnum(EnumConfig{Name: "Color", Values: EnumValueConfigMap{name2("vname"): &EnumValueConfig{Value: 0}}})
		objFields["c"] = &Field{Type: color}
	case 23:
		objFields["l"] = &Field{Type: NewList(nil)}
	case 26:
		objName = "__Obj" // names beginning with __ are reserved for introspection
	case 27:
		in = NewInputObject(InputObjectConfig{Name: "__In", Fields: InputObjectConfigFieldMap{"a": &InputObjectFieldConfig{Type: Int}}})
		objFields["c"] = &Field{Type: color, Args: FieldConfigArgument{"in": &ArgumentConfig{Type: in}}}
	}
	ocfg := ObjectConfig{Name: objName}
	if thunks {
		ocfg.Fields = FieldsThunk(func() Fields { return objFields })
		ocfg.Interfaces = InterfacesThunk(func() []*Interface {
			if defect == 24 {
				return []*Interface{node, node} // the same interface declared twice
			}
			if defect == 28 {
				return []*Interface{nil, node} // nil among the declared interfaces
			}
			return []*Interface{node}
		})
	} else {
		ocfg.Fields = objFields
		ocfg.Interfaces = []*Interface{node}
		if defect == 24 {
			ocfg.Interfaces = []*Interface{node, node}
		}
		if defect == 28 {
			ocfg.Interfaces = []*Interface{nil, node}
		}
	}
	var schema Schema
	var err error
	// whether an implementation error is found must not depend on the order in
	// which the field maps are walked: for the interface-related defects the
	// construction runs under every single-range rotation
	orderMatters := route == 0 && !thunks && (defect == 0 || (defect >= 7 && defect <= 11) || defect == 24)
	zzGuard("schema construction", func() {
		obj := NewObject(ocfg)
		switch touch {
		case 1:
			obj.Fields()
			obj.Interfaces()
		case 2:
			obj.Interfaces()
			obj.Fields()
		}
		switch defect {
		case 5:
			uni = NewUnion(UnionConfig{Name: "U", Types: []*Object{}, ResolveType: func(p ResolveTypeParams) *Object { return nil }})
		case 6:
			uni = NewUnion(UnionConfig{Name: "U", Types: []*Object{obj, nil}, ResolveType: func(p ResolveTypeParams) *Object { return nil }})
		case 25: // the same member twice
			uni = NewUnion(UnionConfig{Name: "U", Types: []*Object{obj, obj}, ResolveType: func(p ResolveTypeParams) *Object { return nil }})
		default:
			uni = NewUnion(UnionConfig{Name: "U", Types: []*Object{obj}, ResolveType: func(p ResolveTypeParams) *Object { return nil }})
		}
		if route != 0 {
			zzAssume(defect != 16)
			q0 := NewObject(ObjectConfig{Name: "Query", Fields: qFields})
			var x Type
			switch route {
			case 1:
				x = obj
			case 2:
				x = uni
			case 3:
				x = NewList(obj)
			case 4:
				x = NewNonNull(NewList(uni))
			case 5:
				x = nil
			case 6: // nil among the types given up front
				s6, e6 := NewSchema(SchemaConfig{Query: q0, Types: []Type{obj, nil}})
				if e6 == nil {
					zzAssert(zzConsistent(&s6) == "", "NewSchema accepted an inconsistent schema: "+zzConsistent(&s6))
					zzCover("accepted")
				} else {
					zzCover("rejected")
				}
				return
			}
			base, berr := NewSchema(SchemaConfig{Query: q0})
			zzAssert(berr == nil, "the base schema (Query and an interface without implementers) was rejected")
			aerr := base.AppendType(x)
			if route == 5 {
				// an error or a no-op, but no panic and no damage
				zzAssert(zzConsistent(&base) == "", "AppendType(nil) left the schema inconsistent: "+zzConsistent(&base))
				zzCover("rejected")
				return
			}
			upfront, uerr := NewSchema(SchemaConfig{Query: q0, Types: []Type{x}})
			zzAssert((aerr == nil) == (uerr == nil), "AppendType and SchemaConfig.Types disagree on whether the type is acceptable")
			err = aerr
			if aerr != nil {
				zzAssert(zzConsistent(&base) == "", "a failed AppendType left the schema inconsistent: "+zzConsistent(&base))
				zzCover("rejected")
				return
			}
			if msg := zzConsistent(&base); msg != "" {
				zzFail("AppendType produced an inconsistent schema: " + msg)
			}
			zzAssert(len(base.TypeMap()) == len(upfront.TypeMap()), "appending a type gives a different type map than supplying it up front")
			for name := range upfront.TypeMap() {
				zzAssert(base.TypeMap()[name] != nil, "appending a type gives a different type map than supplying it up front")
			}
			zzAssert(len(base.PossibleTypes(node)) == len(upfront.PossibleTypes(node)), "appending a type gives different possible types than supplying it up front")
			zzCover("accepted")
			return
		}
		qFields["u"] = &Field{Type: uni}
		q := NewObject(ObjectConfig{Name: "Query", Fields: qFields})
		schemaCfg = SchemaConfig{Query: q, Types: []Type{obj}}
		if defect == 16 {
			schemaCfg.Query = nil
		}
		switch defect {
		case 29: // output type as a directive argument
			schemaCfg.Directives = append([]*Directive{NewDirective(DirectiveConfig{Name: "d", Locations: []string{DirectiveLocationField},
				Args: FieldConfigArgument{"a": &ArgumentConfig{Type: node}}})}, SpecifiedDirectives...)
		case 30: // nil argument configuration
			schemaCfg.Directives = append([]*Directive{NewDirective(DirectiveConfig{Name: "d", Locations: []string{DirectiveLocationField},
				Args: FieldConfigArgument{"a": nil}})}, SpecifiedDirectives...)
		case 31: // nil directive
			schemaCfg.Directives = append([]*Directive{nil}, SpecifiedDirectives...)
		case 32: // argument without a type
			schemaCfg.Directives = append([]*Directive{NewDirective(DirectiveConfig{Name: "d", Locations: []string{DirectiveLocationField},
				Args: FieldConfigArgument{"a": &ArgumentConfig{Type: nil}}})}, SpecifiedDirectives...)
		case 33: // arbitrary directive and argument names
			schemaCfg.Directives = append([]*Directive{NewDirective(DirectiveConfig{Name: name2("dname"), Locations: []string{DirectiveLocationField},
				Args: FieldConfigArgument{name2("daname"): &ArgumentConfig{Type: Int}}})}, SpecifiedDirectives...)
		}
		if orderMatters {
			zzMapOrder(true, zzParam("D", 1))
		}
		schema, err = NewSchema(schemaCfg)
		zzMapOrder(false, 0)
		if err == nil {
			msg := zzConsistent(&schema)
			if msg != "" {
				zzFail("NewSchema accepted an inconsistent schema: " + msg)
			}
			zzCover("accepted")
		} else {
			zzCover("rejected")
		}
	})
	if defect == 0 {
		zzAssert(err == nil, "a valid configuration was rejected")
	}
	zzCover("end")
}
