package graphql

import (
	"time"

	"github.com/graphql-go/graphql/language/ast"
)

// zzCtx: a caller-supplied context.Context implementation.
type zzCtx struct{ id int }

func (*zzCtx) Deadline() (time.Time, bool)       { return time.Time{}, false }
func (*zzCtx) Done() <-chan struct{}             { return nil }
func (*zzCtx) Err() error                        { return nil }
func (*zzCtx) Value(key interface{}) interface{} { return nil }

func zzParentPath(p string) string {
	for i := len(p) - 1; i >= 0; i-- {
		if p[i] == '/' {
			return p[:i]
		}
	}
	return ""
}

func zzLastKey(p string) string {
	for i := len(p) - 1; i >= 0; i-- {
		if p[i] == '/' {
			return p[i+1:]
		}
	}
	return p
}

func zzTypeString(f *zzFieldSpec) string {
	s := f.typ
	if f.list {
		s = "[" + s + "]"
	}
	if f.nonNull {
		s += "!"
	}
	return s
}

// zzIncluded returns, per response path, the field occurrences the reference
// collects (the included ones).
type zzOcc struct {
	path   string
	fields []*ast.Field
}

func (r *zzRef) occurrences(runtime string, sets []*ast.SelectionSet, path string, out *[]zzOcc) {
	var groups []zzGroup
	visited := map[string]bool{}
	for _, ss := range sets {
		r.collect(runtime, ss, visited, &groups)
	}
	ts := zzTypeSpecOf(runtime)
	for _, g := range groups {
		fname := g.fields[0].Name.Value
		spec := zzFieldSpecOf(ts, fname)
		if spec == nil {
			continue
		}
		fpath := path + "/" + g.key
		*out = append(*out, zzOcc{fpath, g.fields})
		if zzIsLeafType(spec.typ) {
			continue
		}
		var subs []*ast.SelectionSet
		for _, f := range g.fields {
			subs = append(subs, f.SelectionSet)
		}
		rt := spec.typ
		if rt == "Node" || rt == "U" {
			rt = r.w.runtimeN
			if rt == "" {
				rt = "Obj"
			}
		}
		if spec.list {
			r.occurrences(rt, subs, fpath+"/0", out)
			r.occurrences(rt, subs, fpath+"/1", out)
		} else {
			r.occurrences(rt, subs, fpath, out)
		}
	}
}

// ZZ_C20_params: every resolver invocation of an execution is told accurately
// where it is; one plan is executed twice with different root values, contexts
// and variables, so anything cached from the first run shows in the second.
func ZZ_C20_params() {
	nsel := zzParam("W", 2)
	picks := make([]int, nsel)
	for i := range picks {
		if i >= 2 {
			// a third (and later) selection comes from the core items: the full cube is ~10^5 documents
			picks[i] = zzRootMenuCore[zzChoice("pick"+zzItoa(i), len(zzRootMenuCore))]
			continue
		}
		picks[i] = zzChoice("pick"+zzItoa(i), len(zzRootMenu))
	}
	text := zzBuildDoc(picks)
	w := &zzWorld{}
	if zzContains(text, "n{") || zzContains(text, "n @") || zzContains(text, "u{") {
		if zzChoice("rt", 2) == 1 {
			w.runtimeN = "Other"
		}
		w.useIsTypeOf = zzChoice("isTypeOf", 2) == 1
	}
	schema := zzBuildSchema(w)
	doc := zzParse(text)
	if vr := ValidateDocument(&schema, doc, nil); !vr.IsValid {
		zzCover("invalid-pick")
		return
	}
	var op *ast.OperationDefinition
	nfrag := 0
	for _, d := range doc.Definitions {
		switch x := d.(type) {
		case *ast.OperationDefinition:
			op = x
		case *ast.FragmentDefinition:
			nfrag++
		}
	}
	plan, err := PlanQuery(&schema, doc, "")
	zzAssert(err == nil && plan != nil, "PlanQuery failed on a valid document")
	mode := zzChoice("mutate", 3) // 0 plain, 1 a resolver scribbles on its arguments, 2 object fields below the root defer their result
	mutateArgs := mode == 1
	if mode == 2 {
		w.hook = func(parent, field string, p ResolveParams) (interface{}, error, bool) {
			if parent == "Obj" && (field == "o" || field == "n") {
				def, _ := w.defaultResolve(parent, zzFieldSpecOf(zzTypeSpecOf(parent), field), p)
				return func() (interface{}, error) { return def, nil }, nil, true
			}
			return nil, nil, false
		}
	}
	if mutateArgs {
		// a resolver that scribbles on the argument map it was given
		w.hook = func(parent, field string, p ResolveParams) (interface{}, error, bool) {
			if parent == "Query" && field == "i" {
				v := zzLeafValue(parent, field, p.Args)
				p.Args["v"] = 999
				p.Args["junk"] = true
				return v, nil, true
			}
			// ... and on the nested values inside it
			if parent == "Query" && field == "io" {
				if in, ok := p.Args["in"].(map[string]interface{}); ok {
					in["b"] = "scribbled"
					in["junk"] = 1
				}
			}
			if parent == "Query" && field == "li" {
				if l, ok := p.Args["l"].([]interface{}); ok && len(l) > 0 {
					l[0] = 999
				}
			}
			return nil, nil, false
		}
	}
	for run := 0; run < 2; run++ {
		vars := zzVarsFor(text, zzItoa(run))
		root := map[string]interface{}{"run": run}
		ctx := &zzCtx{id: run}
		w.calls, w.typeCalls, w.returned = nil, nil, nil
		r := ExecutePlan(plan, ExecuteParams{Schema: schema, Root: root, Args: vars, Context: ctx})
		zzAssert(len(r.Errors) == 0, "unexpected errors")
		ref := &zzRef{w: w, frags: map[string]*ast.FragmentDefinition{}, vars: vars}
		for _, d := range doc.Definitions {
			if x, ok := d.(*ast.FragmentDefinition); ok {
				ref.frags[x.Name.Value] = x
			}
		}
		_, wantCalls := zzRefExecute(w, doc, "", vars)
		zzAssert(zzSameCalls(w.calls, wantCalls), "each selected field resolved exactly once")
		var occ []zzOcc
		ref.occurrences("Query", []*ast.SelectionSet{op.SelectionSet}, "", &occ)
		for _, c := range w.calls {
			spec := zzFieldSpecOf(zzTypeSpecOf(c.Parent), c.Field)
			// source
			pp := zzParentPath(c.Path)
			if pp == "" {
				src, ok := c.Source.(map[string]interface{})
				zzAssert(ok && src["run"] == run, "top-level source is this request's root value")
			} else {
				want, ok := w.returned[pp]
				zzAssert(ok && c.Source == want, "source is the value the parent resolved to")
			}
			// arguments
			var first *ast.Field
			for _, o := range occ {
				if o.path == c.Path {
					first = o.fields[0]
					// every included occurrence is among FieldASTs
					for _, f := range o.fields {
						found := false
						for _, g := range c.Info.FieldASTs {
							if g == f {
								found = true
							}
						}
						zzAssert(found, "an included occurrence is missing from FieldASTs")
					}
				}
			}
			zzAssert(first != nil, "invocation at a path the reference does not execute")
			zzAssert(zzDeepEqual(c.Args, ref.argValue(spec, first)), "arguments are the coerced arguments of the field")
			for _, g := range c.Info.FieldASTs {
				key := g.Name.Value
				if g.Alias != nil {
					key = g.Alias.Value
				}
				zzAssert(key == zzLastKey(c.Path) && g.Name.Value == c.Field, "FieldASTs holds an occurrence of another field")
			}
			zzAssert(c.Info.FieldName == c.Field, "FieldName")
			zzAssert(c.Info.ReturnType.String() == zzTypeString(spec), "ReturnType is the declared type")
			zzAssert(c.Info.ParentType.Name() == c.Parent, "ParentType is the runtime object type")
			zzAssert(c.Info.Operation == ast.Definition(op), "Operation")
			zzAssert(len(c.Info.Fragments) == nfrag, "Fragments")
			zzAssert(zzDeepEqual(c.Info.VariableValues, vars), "VariableValues are this request's")
			rv, ok := c.Info.RootValue.(map[string]interface{})
			zzAssert(ok && rv["run"] == run, "RootValue is this request's")
			zzAssert(c.Info.Schema.QueryType() == schema.QueryType(), "Schema")
			cc, ok := c.Ctx.(*zzCtx)
			zzAssert(ok && cc == ctx, "Context is the caller's")
		}
		for _, tc := range w.typeCalls {
			cc, ok := tc.Ctx.(*zzCtx)
			zzAssert(ok && cc == ctx, "type resolver context is the caller's")
			v, ok := tc.Value.(zzObjVal)
			zzAssert(ok, "type resolver receives the value being completed")
			found := false
			for _, rv := range w.returned {
				if rv == interface{}(v) {
					found = true
				}
			}
			zzAssert(found, "type resolver value is not a value a resolver returned")
			rv, ok := tc.Info.RootValue.(map[string]interface{})
			zzAssert(ok && rv["run"] == run, "type resolver info.RootValue is this request's")
		}
		zzCover("run")
	}
}
