package graphql

import (
	"errors"

	"github.com/graphql-go/graphql/gqlerrors"
)

var zzC18ListPositions = []string{
	"/tags/0", "/tags/1", "/matrix/0/0", "/matrix/0/1", "/matrix/1/0", "/nn/0", "/nn/1", "/picky/0", "/picky/1",
	"/items/0/tags/0", "/items/1/tags/1", "/items/0/name", "/items/1/name", "/t2/0", "/t2/1",
}

// ZZ_C18_list_paths: elements of scalar lists (nullable and non-null items,
// nested lists, lists under list items, aliases, a custom scalar whose
// Serialize panics) and fields fail on their own, as deferred results or with
// one error value shared by all failing fields. Every error's path, when it has
// one, is the keys and list indices of exactly one failing position, no two
// errors share a path, the data there (or above) is null, every location is
// that of a field of the request, and everything that did not fail is there.
func ZZ_C18_list_paths() {
	failing := map[string]bool{}
	mode := zzChoice("mode", 3)
	switch mode {
	case 0:
		for _, p := range zzC18ListPositions {
			if p != "/nn/1" {
				failing[p] = true
			}
		}
	case 1:
		failing[zzC18ListPositions[zzChoice("f1", len(zzC18ListPositions))]] = true
	default:
		f1 := zzChoice("f1", len(zzC18ListPositions))
		f2 := zzChoice("f2", len(zzC18ListPositions))
		zzAssume(f1 < f2 && !(f1 == 5 && f2 == 6))
		failing[zzC18ListPositions[f1]] = true
		failing[zzC18ListPositions[f2]] = true
	}
	// style 0: a fresh error per failure; 1: one error value built by the
	// application (a *gqlerrors.Error without position) shared by all failures
	style := zzChoice("style", 2)
	sentinel := gqlerrors.NewError("not found", nil, "", nil, nil, nil)
	fail := func() (interface{}, error) {
		if style == 1 {
			return nil, sentinel
		}
		return nil, errors.New("boom")
	}
	elem := func(path string) interface{} {
		if failing[path] {
			return func() (interface{}, error) { return fail() }
		}
		return "v" + path
	}
	picky := NewScalar(ScalarConfig{Name: "Picky",
		Serialize: func(v interface{}) interface{} {
			if v == "bad" {
				panic(errors.New("boom"))
			}
			return v
		}})
	strList := func(p ResolveParams) (interface{}, error) {
		base := zzPathString(p.Info.Path)
		return []interface{}{elem(base + "/0"), elem(base + "/1")}, nil
	}
	item := NewObject(ObjectConfig{Name: "Item", Fields: Fields{
		"tags": &Field{Type: NewList(String), Resolve: strList},
		"name": &Field{Type: String, Resolve: func(p ResolveParams) (interface{}, error) {
			if failing[zzPathString(p.Info.Path)] {
				return fail()
			}
			return "n", nil
		}},
	}})
	q := NewObject(ObjectConfig{Name: "Query", Fields: Fields{
		"tags": &Field{Type: NewList(String), Resolve: strList},
		// a non-null item fails by being null (a deferred failure there is the
		// recorded finding KF-C04-thunk-nonnull, which C04 tracks)
		"nn": &Field{Type: NewList(NewNonNull(String)), Resolve: func(p ResolveParams) (interface{}, error) {
			out := []interface{}{"n0", "n1"}
			for i := range out {
				if failing["/nn/"+zzItoa(i)] {
					out[i] = nil
				}
			}
			return out, nil
		}},
		"matrix": &Field{Type: NewList(NewList(String)), Resolve: func(p ResolveParams) (interface{}, error) {
			return []interface{}{[]interface{}{elem("/matrix/0/0"), elem("/matrix/0/1")}, []interface{}{elem("/matrix/1/0")}}, nil
		}},
		"picky": &Field{Type: NewList(picky), Resolve: func(p ResolveParams) (interface{}, error) {
			out := []interface{}{"p0", "p1"}
			for i := range out {
				if failing["/picky/"+zzItoa(i)] {
					out[i] = "bad"
				}
			}
			return out, nil
		}},
		"items": &Field{Type: NewList(item), Resolve: func(p ResolveParams) (interface{}, error) { return []interface{}{1, 2}, nil }},
	}})
	schema, err := NewSchema(SchemaConfig{Query: q})
	zzAssert(err == nil, "schema")
	text := "{ tags matrix nn picky items { name tags } t2: tags }"
	r := Do(Params{Schema: schema, RequestString: text})
	n := 0
	for range failing {
		n++
	}
	zzAssert(len(r.Errors) == n, "one error per failing position")
	seen := map[string]bool{}
	for _, e := range r.Errors {
		if len(e.Path) > 0 {
			ps := zzErrPathStr(e.Path)
			zzAssert(failing[ps], "an error path does not address a failing position: "+ps)
			zzAssert(!seen[ps], "two errors carry the same path: "+ps)
			seen[ps] = true
			zzAssert(zzNullAt(r.Data, e.Path), "data at an error's path is not null")
		} else {
			zzAssert(style == 1, "a field error without a path")
		}
		for _, l := range e.Locations {
			// the request is one line; fields start at these columns
			zzAssert(l.Line == 1 && (l.Column == 3 || l.Column == 8 || l.Column == 15 || l.Column == 18 || l.Column == 24 || l.Column == 32 || l.Column == 37 || l.Column == 44), "field error location is not the start of a field of the request")
		}
		if style == 0 {
			zzAssert(len(e.Locations) == 1, "field error without location")
		}
	}
	// what did not fail is there
	d, _ := r.Data.(map[string]interface{})
	zzAssert(d != nil, "data")
	for _, p := range zzC18ListPositions {
		if failing[p] || p == "/nn/0" || p == "/nn/1" {
			continue
		}
		zzAssert(!zzNullAtStr(d, p), "a position that did not fail is null: "+p)
	}
	if !failing["/nn/0"] && !failing["/nn/1"] {
		l, _ := d["nn"].([]interface{})
		zzAssert(len(l) == 2 && l[0] != nil && l[1] != nil, "nn")
	} else {
		zzAssert(d["nn"] == nil, "a failing non-null item must null the list")
	}
	zzCover("end")
}

// zzNullAtStr: is the data at /key/index/... nil (or unreachable)?
func zzNullAtStr(data interface{}, path string) bool {
	var segs []interface{}
	cur := ""
	flush := func() {
		if cur == "" {
			return
		}
		isNum := true
		n := 0
		for _, c := range cur {
			if c < '0' || c > '9' {
				isNum = false
			}
			n = n*10 + int(c-'0')
		}
		if isNum {
			segs = append(segs, n)
		} else {
			segs = append(segs, cur)
		}
		cur = ""
	}
	for i := 1; i < len(path); i++ {
		if path[i] == '/' {
			flush()
		} else {
			cur += string(path[i])
		}
	}
	flush()
	return zzNullAt(data, segs)
}
