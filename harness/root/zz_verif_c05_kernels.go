package graphql

import (
	"github.com/graphql-go/graphql/language/ast"
)

const (
	zzMinInt32 = -2147483648
	zzMaxInt32 = 2147483647
)

// zzCheckInt32: r is nil or an int inside the 32-bit range; returns (value, ok).
func zzCheckInt32(r interface{}, what string) (int, bool) {
	if r == nil {
		return 0, false
	}
	v, isInt := r.(int)
	zzAssert(isInt, what+": result is not an int")
	zzAssert(zzAnd(v >= zzMinInt32, v <= zzMaxInt32), what+": result outside 32-bit range")
	return v, true
}

// ZZ_C05_coerceInt: for every numeric Go kind and every value of it, coerceInt
// returns nil or the (truncated) mathematical value inside the 32-bit range;
// integers inside the range are never rejected.
func ZZ_C05_coerceInt() {
	kind := zzChoice("kind", 14)
	switch kind {
	case 0:
		x := zzInt64("x")
		v, ok := zzCheckInt32(coerceInt(x), "int64")
		in := zzAnd(x >= zzMinInt32, x <= zzMaxInt32)
		zzAssert(ok == in, "int64: accepted iff in range")
		if ok {
			zzAssert(int64(v) == x, "int64: value preserved")
		}
	case 1:
		x := int(zzInt64("x"))
		v, ok := zzCheckInt32(coerceInt(x), "int")
		in := zzAnd(x >= zzMinInt32, x <= zzMaxInt32)
		zzAssert(ok == in, "int: accepted iff in range")
		if ok {
			zzAssert(v == x, "int: value preserved")
		}
	case 2:
		x := zzInt32("x")
		v, ok := zzCheckInt32(coerceInt(x), "int32")
		zzAssert(ok, "int32: never rejected")
		zzAssert(int32(v) == x, "int32: value preserved")
	case 3:
		x := zzUint64("x")
		v, ok := zzCheckInt32(coerceInt(x), "uint64")
		zzAssert(ok == (x <= zzMaxInt32), "uint64: accepted iff in range")
		if ok {
			zzAssert(uint64(v) == x, "uint64: value preserved")
		}
	case 4:
		x := uint(zzUint64("x"))
		v, ok := zzCheckInt32(coerceInt(x), "uint")
		zzAssert(ok == (x <= zzMaxInt32), "uint: accepted iff in range")
		if ok {
			zzAssert(uint(v) == x, "uint: value preserved")
		}
	case 5:
		x := zzUint32("x")
		v, ok := zzCheckInt32(coerceInt(x), "uint32")
		zzAssert(ok == (x <= zzMaxInt32), "uint32: accepted iff in range")
		if ok {
			zzAssert(uint32(v) == x, "uint32: value preserved")
		}
	case 6:
		x := int16(zzInt32("x"))
		v, ok := zzCheckInt32(coerceInt(x), "int16")
		zzAssert(ok && int16(v) == x, "int16")
	case 7:
		x := uint16(zzUint32("x"))
		v, ok := zzCheckInt32(coerceInt(x), "uint16")
		zzAssert(ok && uint16(v) == x, "uint16")
	case 8:
		x := int8(zzInt32("x"))
		v, ok := zzCheckInt32(coerceInt(x), "int8")
		zzAssert(ok && int8(v) == x, "int8")
	case 9:
		x := zzByte("x")
		v, ok := zzCheckInt32(coerceInt(x), "uint8")
		zzAssert(ok && uint8(v) == x, "uint8")
	case 10:
		// float64: any value. Accepted results are in range and within 1 of the input.
		x := zzFloat64("f")
		v, ok := zzCheckInt32(coerceInt(x), "float64")
		if ok {
			// v is x truncated toward zero (comparisons only: FP arithmetic stalls the solvers)
			if x >= 0 {
				zzAssert(float64(v) <= x, "float64: truncation (>=0, lower)")
				zzAssert(x < float64(v+1), "float64: truncation (>=0, upper)")
			} else {
				zzAssert(float64(v-1) < x, "float64: truncation (<0, lower)")
				zzAssert(x <= float64(v), "float64: truncation (<0, upper)")
			}
		}
	case 11:
		// float64 holding an exact 32-bit integer is accepted with that value
		k := zzInt32("k")
		v, ok := zzCheckInt32(coerceInt(float64(k)), "float64(int32)")
		zzAssert(ok, "float64(int32): rejected")
		zzAssert(int32(v) == k, "float64(int32): value preserved")
	case 12:
		// float32: any value
		x := float32(zzFloat64("f"))
		v, ok := zzCheckInt32(coerceInt(x), "float32")
		if ok {
			xx := float64(x)
			if xx >= 0 {
				zzAssert(float64(v) <= xx, "float32: truncation (>=0, lower)")
				zzAssert(xx < float64(v+1), "float32: truncation (>=0, upper)")
			} else {
				zzAssert(float64(v-1) < xx, "float32: truncation (<0, lower)")
				zzAssert(xx <= float64(v), "float32: truncation (<0, upper)")
			}
		}
	case 13:
		// pointers: nil pointer -> nil, else as the pointee
		x := zzInt64("x")
		v, ok := zzCheckInt32(coerceInt(&x), "*int64")
		in := zzAnd(x >= zzMinInt32, x <= zzMaxInt32)
		zzAssert(ok == in, "*int64: accepted iff in range")
		if ok {
			zzAssert(int64(v) == x, "*int64: value preserved")
		}
		var np *int64
		zzAssert(coerceInt(np) == nil, "nil *int64")
	}
	zzCover("end")
}

// ZZ_C05_intLiteral: Int.ParseLiteral on an integer literal of up to 11 digits
// (optional minus) yields the literal's value iff it fits in 32 bits, nil otherwise.
func ZZ_C05_intLiteral() {
	n := 1 + zzChoice("ndigits", 11)
	neg := zzChoice("neg", 2) == 1
	digits := zzString("d", n)
	var val int64
	for i := 0; i < n; i++ {
		c := digits[i]
		zzAssume(zzAnd(c >= '0', c <= '9'))
		val = val*10 + int64(c-'0')
	}
	if n > 1 {
		zzAssume(digits[0] != '0') // GraphQL forbids leading zeros
	}
	text := digits
	if neg {
		text = "-" + digits
		val = -val
	}
	r := Int.ParseLiteral(&ast.IntValue{Kind: "IntValue", Value: text})
	v, ok := zzCheckInt32(r, "Int literal")
	in := zzAnd(val >= zzMinInt32, val <= zzMaxInt32)
	zzAssert(ok == in, "Int literal: accepted iff it fits in 32 bits")
	if ok {
		zzAssert(int64(v) == val, "Int literal: value")
	}
	// the same value supplied as a variable (as an int; float64 inputs are covered by ZZ_C05_coerceInt)
	rv := Int.ParseValue(int(val))
	_, okv := zzCheckInt32(rv, "Int variable")
	zzAssert(okv == ok, "Int: literal and variable forms agree")
	zzCover("end")
}

// ZZ_C05_enum: an enum with non-name internal values round-trips names and
// rejects unknown names / values.
func ZZ_C05_enum() {
	e := NewEnum(EnumConfig{Name: "Color", Values: EnumValueConfigMap{
		"RED":   &EnumValueConfig{Value: 0},
		"GREEN": &EnumValueConfig{Value: 1},
		"BLUE":  &EnumValueConfig{Value: "b"},
	}})
	zzAssert(e.Error() == nil, "enum construction")
	name := zzString("name", 1+zzChoice("len", 5))
	r := e.ParseValue(name)
	isRed, isGreen, isBlue := zzStrEq(name, "RED"), zzStrEq(name, "GREEN"), zzStrEq(name, "BLUE")
	if r == nil {
		zzAssert(zzNot(zzOr(isRed, zzOr(isGreen, isBlue))), "enum: known name rejected")
	} else {
		zzAssert(zzOr(isRed, zzOr(isGreen, isBlue)), "enum: unknown name accepted")
		s := e.Serialize(r)
		zzAssert(s != nil && zzStrEq(s.(string), name), "enum: serialize(parse(name)) == name")
	}
	lit := e.ParseLiteral(&ast.EnumValue{Kind: "EnumValue", Value: name})
	zzAssert((lit == nil) == (r == nil), "enum: literal and variable forms agree")
	iv := int(zzInt64("iv"))
	s := e.Serialize(iv)
	if s == nil {
		zzAssert(zzAnd(iv != 0, iv != 1), "enum: known internal value rejected")
	} else {
		zzAssert(zzOr(iv == 0, iv == 1), "enum: unknown internal value serialised")
	}
	zzCover("end")
}
