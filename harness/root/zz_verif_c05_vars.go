package graphql

import (
	"github.com/graphql-go/graphql/language/ast"
)

// End-to-end input coercion: one field f(v: T) whose resolver records the
// argument map it is given; T, the presence of defaults at variable, argument
// and input-field level, the shape of the supplied value and the integer inside
// it are the inputs. The oracle is zzC05Ref below, an independent rendering of
// the spec's input coercion (CoerceVariableValues / CoerceArgumentValues) under
// this library's convention that an explicit null is the same as an absent value.

const (
	zzStOK = iota
	zzStBad     // must be rejected: a non-conformance the property names
	zzStLenient // cross-kind leniency the property does not name (e.g. true for Int): not judged
)

func zzWorse(a, b int) int {
	// bad dominates lenient dominates ok
	if a == zzStBad || b == zzStBad {
		return zzStBad
	}
	if a == zzStLenient || b == zzStLenient {
		return zzStLenient
	}
	return zzStOK
}

var zzC05Enum = NewEnum(EnumConfig{Name: "E", Values: EnumValueConfigMap{
	"RED": &EnumValueConfig{Value: 1}, "GREEN": &EnumValueConfig{Value: "g"}}})

var zzC05Custom = NewScalar(ScalarConfig{Name: "C",
	Serialize: func(v interface{}) interface{} { return v },
	ParseValue: func(v interface{}) interface{} {
		if s, ok := v.(string); ok {
			return "C:" + s
		}
		return nil
	},
	ParseLiteral: func(v ast.Value) interface{} {
		if s, ok := v.(*ast.StringValue); ok {
			return "C:" + s.Value
		}
		return nil
	}})

var zzC05In2 = NewInputObject(InputObjectConfig{Name: "In2", Fields: InputObjectConfigFieldMap{
	"x": &InputObjectFieldConfig{Type: NewNonNull(Int)},
	"y": &InputObjectFieldConfig{Type: NewList(NewList(Int))}}})

var zzC05In = NewInputObject(InputObjectConfig{Name: "In", Fields: InputObjectConfigFieldMap{
	"a": &InputObjectFieldConfig{Type: Int, DefaultValue: 7},
	"b": &InputObjectFieldConfig{Type: NewNonNull(String)},
	"e": &InputObjectFieldConfig{Type: zzC05Enum, DefaultValue: "g"},
	"n": &InputObjectFieldConfig{Type: zzC05In2},
	"l": &InputObjectFieldConfig{Type: NewList(Int)}}})

var zzC05In3 = NewInputObject(InputObjectConfig{Name: "In3", Fields: InputObjectConfigFieldMap{
	"p": &InputObjectFieldConfig{Type: Int, DefaultValue: 9},
	"q": &InputObjectFieldConfig{Type: String}}})

type zzC05Type struct {
	decl   string
	t      Input
	def    interface{} // a conformant internal value usable as argument default
	defLit string      // the same value as a literal (variable default)
}

func zzC05Types() []zzC05Type {
	return []zzC05Type{
		{"Int", Int, 5, "5"},
		{"Int!", NewNonNull(Int), 5, ""},
		{"Float", Float, 1.5, "1.5"},
		{"String", String, "d", `"d"`},
		{"Boolean", Boolean, true, "true"},
		{"E", zzC05Enum, 1, "RED"},
		{"C", zzC05Custom, "C:d", `"d"`},
		{"[Int]", NewList(Int), []interface{}{1, 2}, "[1,2]"},
		{"[Int!]", NewList(NewNonNull(Int)), []interface{}{3}, "[3]"},
		{"[[Int]]", NewList(NewList(Int)), []interface{}{[]interface{}{1}}, "[[1]]"},
		{"[Int]!", NewNonNull(NewList(Int)), []interface{}{4}, ""},
		{"In", zzC05In, map[string]interface{}{"b": "d", "a": 7, "e": "g"}, `{b:"d"}`},
		{"In!", NewNonNull(zzC05In), nil, ""},
		{"[In]", NewList(zzC05In), nil, ""},
		{"[E!]", NewList(NewNonNull(zzC05Enum)), []interface{}{"g"}, "[GREEN]"},
		{"ID", ID, "id7", `"id7"`},
		{"[ID!]", NewList(NewNonNull(ID)), []interface{}{"8"}, "[8]"},
		{"In3", zzC05In3, map[string]interface{}{"p": 9}, "{}"},
		{"[In3!]", NewList(NewNonNull(zzC05In3)), nil, ""},
	}
}

// zzC05Ref coerces a JSON-like variable value to type t.
func zzC05Ref(t Input, v interface{}) (interface{}, int) {
	if nn, ok := t.(*NonNull); ok {
		if v == nil {
			return nil, zzStBad // null or absent for a non-null type
		}
		return zzC05Ref(nn.OfType.(Input), v)
	}
	if v == nil {
		return nil, zzStOK
	}
	switch tt := t.(type) {
	case *List:
		of := tt.OfType.(Input)
		// lists built in Go with typed slices are lists all the same
		switch x := v.(type) {
		case []int:
			g := make([]interface{}, len(x))
			for i := range x {
				g[i] = x[i]
			}
			v = g
		case []string:
			g := make([]interface{}, len(x))
			for i := range x {
				g[i] = x[i]
			}
			v = g
		case []map[string]interface{}:
			g := make([]interface{}, len(x))
			for i := range x {
				g[i] = x[i]
			}
			v = g
		}
		if l, ok := v.([]interface{}); ok {
			out := []interface{}{}
			st := zzStOK
			for _, e := range l {
				c, s := zzC05Ref(of, e)
				st = zzWorse(st, s)
				out = append(out, c)
			}
			return out, st
		}
		c, s := zzC05Ref(of, v) // list-of-one wrapping
		return []interface{}{c}, s
	case *InputObject:
		m, ok := v.(map[string]interface{})
		if !ok {
			return nil, zzStBad // a non-object for an input object
		}
		fields := tt.Fields()
		st := zzStOK
		for name := range m {
			if _, known := fields[name]; !known {
				st = zzStBad // unknown input field
			}
		}
		out := map[string]interface{}{}
		for name, f := range fields {
			fv := m[name]
			if fv != nil {
				c, s := zzC05Ref(f.Type, fv)
				st = zzWorse(st, s)
				out[name] = c
				continue
			}
			if f.DefaultValue != nil {
				out[name] = f.DefaultValue
				continue
			}
			if _, req := f.Type.(*NonNull); req {
				st = zzStBad // missing required input field
			}
		}
		return out, st
	case *Enum:
		s, ok := v.(string)
		if !ok {
			return nil, zzStBad
		}
		switch s {
		case "RED":
			return 1, zzStOK
		case "GREEN":
			return "g", zzStOK
		}
		return nil, zzStBad // unknown enum value
	case *Scalar:
		switch tt.Name() {
		case "Int":
			switch x := v.(type) {
			case int:
				if zzAnd(x >= zzMinInt32, x <= zzMaxInt32) {
					return x, zzStOK
				}
				return nil, zzStBad // an integer outside 32 bits
			case float64: // JSON numbers
				if x == 1.5 {
					return nil, zzStLenient // fractional value for Int: not named by the property
				}
				if zzAnd(x >= zzMinInt32, x <= zzMaxInt32) {
					return int(x), zzStOK
				}
				return nil, zzStBad
			case string, []interface{}, map[string]interface{}:
				return nil, zzStBad // a non-numeric value for Int
			}
			return nil, zzStLenient
		case "Float":
			switch x := v.(type) {
			case int:
				return float64(x), zzStOK
			case float64:
				return x, zzStOK
			case string, []interface{}, map[string]interface{}:
				return nil, zzStBad // a non-numeric value for Float
			}
			return nil, zzStLenient
		case "String":
			if s, ok := v.(string); ok {
				return s, zzStOK
			}
			return nil, zzStLenient
		case "Boolean":
			if b, ok := v.(bool); ok {
				return b, zzStOK
			}
			return nil, zzStLenient
		case "C":
			if s, ok := v.(string); ok {
				return "C:" + s, zzStOK
			}
			return nil, zzStBad
		case "ID":
			// any string or integer is an ID; it reaches the resolver as a string
			switch x := v.(type) {
			case string:
				return x, zzStOK
			case int:
				return zzItoa(x), zzStOK
			case float64: // JSON numbers
				if x == 1.5 {
					return nil, zzStLenient
				}
				return zzItoa(int(x)), zzStOK
			}
			return nil, zzStLenient
		}
	}
	return nil, zzStLenient
}

func zzC05Eq(a, b interface{}) bool {
	switch x := a.(type) {
	case map[string]interface{}:
		y, ok := b.(map[string]interface{})
		if !ok || len(x) != len(y) {
			return false
		}
		for k, v := range x {
			w, ok := y[k]
			if !ok || !zzC05Eq(v, w) {
				return false
			}
		}
		return true
	case []interface{}:
		y, ok := b.([]interface{})
		if !ok || len(x) != len(y) {
			return false
		}
		for i := range x {
			if !zzC05Eq(x[i], y[i]) {
				return false
			}
		}
		return true
	case nil:
		return b == nil
	case string:
		y, ok := b.(string)
		return ok && x == y
	case int:
		y, ok := b.(int)
		return ok && x == y
	case float64:
		y, ok := b.(float64)
		return ok && x == y
	case bool:
		y, ok := b.(bool)
		return ok && x == y
	}
	return false
}

// zzC05Lit renders a conformant value (without nulls) as a literal for type t;
// ok=false when it cannot be written (null inside, non-finite).
func zzC05Lit(t Input, v interface{}) (string, bool) {
	if nn, ok := t.(*NonNull); ok {
		t = nn.OfType.(Input)
	}
	switch x := v.(type) {
	case nil:
		return "", false
	case int:
		return zzItoa(x), true
	case float64:
		if x == 1.5 {
			return "1.5", true
		}
		if x == float64(int(x)) {
			return zzItoa(int(x)), true
		}
		return "", false
	case bool:
		if x {
			return "true", true
		}
		return "false", true
	case string:
		named := t
		for {
			if l, ok := named.(*List); ok {
				named = l.OfType.(Input)
				if nn, ok := named.(*NonNull); ok {
					named = nn.OfType.(Input)
				}
				continue
			}
			break
		}
		if _, isEnum := named.(*Enum); isEnum {
			return x, true
		}
		return `"` + x + `"`, true
	case []interface{}:
		of := t
		if l, ok := t.(*List); ok {
			of = l.OfType.(Input)
		}
		s := "["
		for i, e := range x {
			es, ok := zzC05Lit(of, e)
			if !ok {
				return "", false
			}
			if i > 0 {
				s += ","
			}
			s += es
		}
		return s + "]", true
	case map[string]interface{}:
		io, ok := t.(*InputObject)
		if !ok {
			// a non-list, non-object type: an object literal is simply not conformant
			return "", false
		}
		fields := io.Fields()
		s := "{"
		// deterministic order
		for _, name := range []string{"a", "b", "e", "l", "n", "p", "q", "x", "y", "zz"} {
			fv, present := x[name]
			if !present {
				continue
			}
			f, known := fields[name]
			if !known {
				return "", false
			}
			fs, ok := zzC05Lit(f.Type, fv)
			if !ok {
				return "", false
			}
			if len(s) > 1 {
				s += ","
			}
			s += name + ":" + fs
		}
		return s + "}", true
	}
	return "", false
}

var zzC05Ints = []int64{0, -7, 2147483647, -2147483648, 2147483648, -2147483649}

// zzC05Value builds the supplied value: shape index over an integer k (given
// as int and as float64, the way encoding/json delivers numbers).
func zzC05Value(shape int, ki int, kf float64) (v interface{}, present bool, usesK bool) {
	switch shape {
	case 0:
		return nil, false, false
	case 1:
		return nil, true, false
	case 2:
		return ki, true, true
	case 3:
		return kf, true, true
	case 4:
		return "str", true, false
	case 5:
		return true, true, false
	case 6:
		return []interface{}{}, true, false
	case 7:
		return []interface{}{kf}, true, true
	case 8:
		return []interface{}{ki, nil}, true, true
	case 9:
		return []interface{}{[]interface{}{kf}, []interface{}{}}, true, true
	case 10:
		return map[string]interface{}{}, true, false
	case 11:
		return map[string]interface{}{"b": "x"}, true, false
	case 12:
		return map[string]interface{}{"b": "x", "a": kf}, true, true
	case 13:
		return map[string]interface{}{"b": "x", "zz": 1}, true, false
	case 14:
		return map[string]interface{}{"a": 1}, true, false
	case 15:
		return map[string]interface{}{"b": "x", "n": map[string]interface{}{"x": ki}}, true, true
	case 16:
		return map[string]interface{}{"b": "x", "n": map[string]interface{}{}}, true, false
	case 17:
		return map[string]interface{}{"b": "x", "e": "RED"}, true, false
	case 18:
		return map[string]interface{}{"b": "x", "e": "NOPE"}, true, false
	case 19:
		return "RED", true, false
	case 20:
		return "NOPE", true, false
	case 21:
		return map[string]interface{}{"b": "x", "l": kf}, true, true
	case 22:
		return map[string]interface{}{"b": "x", "n": map[string]interface{}{"x": 1, "y": ki}}, true, true
	case 23:
		return []interface{}{map[string]interface{}{"b": "y"}, map[string]interface{}{"b": "z", "a": ki}}, true, true
	case 24:
		return []interface{}{"GREEN", "RED"}, true, false
	case 25:
		return 1.5, true, false
	case 26:
		return map[string]interface{}{"q": "s"}, true, false
	case 27:
		return []interface{}{map[string]interface{}{}, map[string]interface{}{"p": ki}}, true, true
	case 28: // typed Go slices
		return []int{ki, 7}, true, true
	case 29:
		return []string{"GREEN", "RED"}, true, false
	case 30:
		return []map[string]interface{}{{"b": "y"}, {"b": "z", "a": ki}}, true, true
	}
	return nil, false, false
}

const zzC05Shapes = 31

type zzC05Rec struct {
	calls int
	args  map[string]interface{}
}

func zzC05Schema(ty zzC05Type, argDefault bool, rec *zzC05Rec) Schema {
	arg := &ArgumentConfig{Type: ty.t}
	if argDefault {
		arg.DefaultValue = ty.def
	}
	q := NewObject(ObjectConfig{Name: "Query", Fields: Fields{
		"f": &Field{Type: String, Args: FieldConfigArgument{"v": arg},
			Resolve: func(p ResolveParams) (interface{}, error) {
				rec.calls++
				rec.args = p.Args
				return "r", nil
			}}}})
	s, err := NewSchema(SchemaConfig{Query: q})
	if err != nil {
		panic(err)
	}
	return s
}

func zzC05ExpectArgs(val interface{}, ty zzC05Type, argDefault bool) map[string]interface{} {
	if val == nil && argDefault {
		val = ty.def
	}
	if val == nil {
		return map[string]interface{}{}
	}
	return map[string]interface{}{"v": val}
}

// ZZ_C05_variables: a value supplied through a variable is rejected (error, no
// data, no resolver call) when it does not conform, and otherwise reaches the
// resolver exactly as input coercion prescribes; the same value written as an
// inline literal gives the resolver the same arguments.
func ZZ_C05_variables() {
	types := zzC05Types()
	ty := types[zzChoice("type", len(types))]
	_, isNN := ty.t.(*NonNull)
	argDefault := ty.def != nil && zzChoice("argdef", 2) == 1
	shape := zzChoice("shape", zzC05Shapes)
	var ki int
	var kf float64
	symbolic := false
	if _, _, usesK := zzC05Value(shape, 0, 0); usesK {
		// (IDs are rendered as decimal text, so they get the concrete boundary integers only)
		if !zzContains(ty.decl, "ID") && zzChoice("ksym", 2) == 1 {
			k := zzInt64("k")
			zzAssume(zzAnd(k >= -2147483650, k <= 2147483650))
			ki, kf = int(k), float64(k)
			symbolic = true
		} else {
			k := zzC05Ints[zzChoice("kc", len(zzC05Ints))]
			ki, kf = int(k), float64(k)
		}
	}
	value, present, _ := zzC05Value(shape, ki, kf)
	varDefault := false
	if value == nil && !isNN && ty.defLit != "" {
		varDefault = zzChoice("vardef", 2) == 1
	}
	rec := &zzC05Rec{}
	schema := zzC05Schema(ty, argDefault, rec)
	decl := "$x:" + ty.decl
	if varDefault {
		decl += "=" + ty.defLit
	}
	text := "query(" + decl + "){ f(v:$x) }"
	vars := map[string]interface{}{}
	if present {
		vars["x"] = value
	}
	want, st := zzC05Ref(ty.t, value)
	zzAssume(st != zzStLenient)
	r := Do(Params{Schema: schema, RequestString: text, VariableValues: vars})
	if st == zzStBad {
		zzAssert(len(r.Errors) > 0, "a variable value that does not conform to its type was accepted")
		zzAssert(r.Data == nil, "data returned although a variable could not be coerced")
		zzAssert(rec.calls == 0, "a resolver ran although a variable could not be coerced")
		zzCover("rejected")
		return
	}
	if want == nil && varDefault {
		want = ty.def
	}
	expect := zzC05ExpectArgs(want, ty, argDefault)
	zzAssert(len(r.Errors) == 0, "a conformant variable value was rejected")
	zzAssert(rec.calls == 1, "resolver not called exactly once")
	zzAssert(zzC05Eq(rec.args, expect), "variable: resolver arguments differ from the coerced value")
	zzCover("accepted")
	// the same value as an inline literal
	if symbolic || value == nil {
		return
	}
	lit, ok := zzC05Lit(ty.t, value)
	if !ok {
		return
	}
	rec2 := &zzC05Rec{}
	schema2 := zzC05Schema(ty, argDefault, rec2)
	r2 := Do(Params{Schema: schema2, RequestString: "{ f(v:" + lit + ") }"})
	zzAssert(len(r2.Errors) == 0, "a conformant literal was rejected: "+lit)
	zzAssert(rec2.calls == 1, "literal: resolver not called exactly once")
	zzAssert(zzC05Eq(rec2.args, expect), "literal and variable give the resolver different arguments: "+lit)
	zzCover("literal")
}

// ZZ_C05_nested: variables used inside an input-object literal: an absent (or
// null) variable leaves the field to its default; a supplied one is delivered.
func ZZ_C05_nested() {
	rec := &zzC05Rec{}
	argDefault := zzChoice("argdef", 2) == 1
	types := zzC05Types()
	ty := types[11]
	schema := zzC05Schema(ty, argDefault, rec)
	form := zzChoice("form", 5)
	vars := map[string]interface{}{}
	mode := zzChoice("k", 3) // absent, null, value
	k := zzInt64("kv")
	zzAssume(zzAnd(k >= zzMinInt32, k <= zzMaxInt32))
	var text string
	var expect map[string]interface{}
	switch form {
	case 0: // Int variable in a defaulted field
		text = `query($k:Int){ f(v:{b:"x", a:$k}) }`
		a := interface{}(7)
		if mode == 1 {
			vars["k"] = nil
		} else if mode == 2 {
			vars["k"] = float64(k)
			a = int(k)
		}
		expect = map[string]interface{}{"b": "x", "a": a, "e": "g"}
	case 1: // enum variable in a defaulted field
		text = `query($k:E){ f(v:{b:"x", e:$k}) }`
		e := interface{}("g")
		if mode == 1 {
			vars["k"] = nil
		} else if mode == 2 {
			vars["k"] = "RED"
			e = 1
		}
		expect = map[string]interface{}{"b": "x", "a": 7, "e": e}
	case 2: // variable in a field without default
		text = `query($k:[Int]){ f(v:{b:"x", l:$k}) }`
		expect = map[string]interface{}{"b": "x", "a": 7, "e": "g"}
		if mode == 1 {
			vars["k"] = nil
		} else if mode == 2 {
			vars["k"] = float64(k)
			expect["l"] = []interface{}{int(k)}
		}
	case 3: // required variable in a required nested field
		zzAssume(mode == 2)
		text = `query($k:Int!){ f(v:{b:"x", n:{x:$k}}) }`
		vars["k"] = int(k)
		expect = map[string]interface{}{"b": "x", "a": 7, "e": "g", "n": map[string]interface{}{"x": int(k)}}
	case 4: // variable default, then field default
		text = `query($k:Int=3){ f(v:{b:"x", a:$k}) }`
		a := interface{}(3)
		if mode == 1 {
			vars["k"] = nil
		} else if mode == 2 {
			vars["k"] = int(k)
			a = int(k)
		}
		expect = map[string]interface{}{"b": "x", "a": a, "e": "g"}
	}
	r := Do(Params{Schema: schema, RequestString: text, VariableValues: vars})
	zzAssert(len(r.Errors) == 0, "unexpected errors")
	zzAssert(rec.calls == 1, "resolver not called exactly once")
	zzAssert(zzC05Eq(rec.args, map[string]interface{}{"v": expect}), "input object literal with variables: resolver arguments differ from the coerced value")
	zzCover("end")
}

// ZZ_C05_subscribe: the Subscribe function of a subscription field is a
// resolver too: it receives the coerced arguments (enum internal values, Int
// from a JSON number, input-field defaults, list-of-one), whether they come
// from variables or literals.
func ZZ_C05_subscribe() {
	types := zzC05Types()
	ty := types[zzChoice("type", len(types))]
	_, isNN := ty.t.(*NonNull)
	argDefault := ty.def != nil && zzChoice("argdef", 2) == 1
	shape := zzChoice("shape", zzC05Shapes)
	var ki int
	var kf float64
	if _, _, usesK := zzC05Value(shape, 0, 0); usesK {
		k := zzC05Ints[zzChoice("kc", 2)] // 0 or -7: the integer itself is covered by ZZ_C05_variables
		ki, kf = int(k), float64(k)
	}
	value, present, _ := zzC05Value(shape, ki, kf)
	zzAssume(!(value == nil && isNN))
	want, st := zzC05Ref(ty.t, value)
	zzAssume(st == zzStOK)
	rec := &zzC05Rec{}
	arg := &ArgumentConfig{Type: ty.t}
	if argDefault {
		arg.DefaultValue = ty.def
	}
	// the source is a channel carrying one event: the event's execution coerces the
	// variables again and must hand the resolver the same arguments
	var resolveArgs map[string]interface{}
	resolveCalls := 0
	sub := NewObject(ObjectConfig{Name: "Subscription", Fields: Fields{
		"f": &Field{Type: String, Args: FieldConfigArgument{"v": arg},
			Subscribe: func(p ResolveParams) (interface{}, error) {
				rec.calls++
				rec.args = p.Args
				src := make(chan interface{}, 1)
				src <- "ev"
				close(src)
				return src, nil
			},
			Resolve: func(p ResolveParams) (interface{}, error) {
				resolveCalls++
				resolveArgs = p.Args
				return "r", nil
			}}}})
	q := NewObject(ObjectConfig{Name: "Query", Fields: Fields{"a": &Field{Type: String}}})
	schema, err := NewSchema(SchemaConfig{Query: q, Subscription: sub})
	zzAssert(err == nil, "schema")
	vars := map[string]interface{}{}
	if present {
		vars["x"] = value
	}
	ch := Subscribe(Params{Schema: schema, RequestString: "subscription($x:" + ty.decl + "){ f(v:$x) }", VariableValues: vars})
	r := <-ch
	zzAssert(r != nil && len(r.Errors) == 0, "subscription failed for a conformant variable value")
	zzAssert(rec.calls == 1, "Subscribe not called exactly once")
	zzAssert(zzC05Eq(rec.args, zzC05ExpectArgs(want, ty, argDefault)), "Subscribe received arguments that differ from the coerced value")
	zzAssert(resolveCalls == 1, "the event was not executed exactly once")
	zzAssert(zzC05Eq(resolveArgs, zzC05ExpectArgs(want, ty, argDefault)), "the event's resolver received arguments that differ from the coerced value")
	d, _ := r.Data.(map[string]interface{})
	zzAssert(d != nil && d["f"] == "r", "event result")
	zzCover("end")
}
