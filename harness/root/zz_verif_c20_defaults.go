package graphql

// ZZ_C20_defaults: what a resolver does to the argument values it received
// (writing into a defaulted input object or list, or into the object a
// variable delivered) is invisible to every other invocation, in the same
// request and in later ones, through Do and through a reused plan: each
// invocation gets exactly the coerced arguments of its field.
func ZZ_C20_defaults() {
	in := NewInputObject(InputObjectConfig{Name: "In", Fields: InputObjectConfigFieldMap{
		"limit": &InputObjectFieldConfig{Type: Int, DefaultValue: 10},
		"tags":  &InputObjectFieldConfig{Type: NewList(String), DefaultValue: []interface{}{"t"}},
		"sub":   &InputObjectFieldConfig{Type: NewList(Int)},
	}})
	mkDefault := func() map[string]interface{} {
		return map[string]interface{}{"limit": 5, "tags": []interface{}{"a", "b"}}
	}
	var seen []map[string]interface{}
	scribble := func(p ResolveParams) (interface{}, error) {
		seen = append(seen, zzDeepCopy(map[string]interface{}(p.Args)).(map[string]interface{}))
		if f, ok := p.Args["filter"].(map[string]interface{}); ok {
			f["limit"] = 99
			f["junk"] = true
			if t, ok := f["tags"].([]interface{}); ok && len(t) > 0 {
				t[0] = "scribbled"
			}
		}
		if l, ok := p.Args["l"].([]interface{}); ok && len(l) > 0 {
			l[0] = 99
		}
		return 1, nil
	}
	fArgs := func() FieldConfigArgument {
		return FieldConfigArgument{
			"filter": &ArgumentConfig{Type: in, DefaultValue: mkDefault()},
			"l":      &ArgumentConfig{Type: NewList(Int), DefaultValue: []interface{}{1, 2}},
			"k":      &ArgumentConfig{Type: Int},
		}
	}
	item := NewObject(ObjectConfig{Name: "Item", Fields: Fields{"f": &Field{Type: Int, Resolve: scribble, Args: fArgs()}}})
	q := NewObject(ObjectConfig{Name: "Query", Fields: Fields{
		"f":     &Field{Type: Int, Resolve: scribble, Args: fArgs()},
		"items": &Field{Type: NewList(item), Resolve: func(p ResolveParams) (interface{}, error) { return []interface{}{1, 2}, nil }},
	}})
	schema, err := NewSchema(SchemaConfig{Query: q})
	zzAssert(err == nil, "schema")
	def := mkDefault()
	defL := []interface{}{1, 2}
	inDefaults := func(m map[string]interface{}) map[string]interface{} {
		if _, ok := m["limit"]; !ok {
			m["limit"] = 10
		}
		if _, ok := m["tags"]; !ok {
			m["tags"] = []interface{}{"t"}
		}
		return m
	}
	type tcase struct {
		text string
		vars func() map[string]interface{}
		want func() []map[string]interface{}
	}
	k := zzInt("k", -5, 5)
	cases := []tcase{
		{"{ a: f b: f }", nil, func() []map[string]interface{} {
			return []map[string]interface{}{{"filter": def, "l": defL}, {"filter": def, "l": defL}}
		}},
		{"query($k: Int){ a: f(k: $k) b: f(k: $k) }", func() map[string]interface{} { return map[string]interface{}{"k": k} }, func() []map[string]interface{} {
			return []map[string]interface{}{{"filter": def, "l": defL, "k": k}, {"filter": def, "l": defL, "k": k}}
		}},
		{"query($o: In, $l: [Int]){ a: f(filter: $o, l: $l) b: f(filter: $o, l: $l) }",
			func() map[string]interface{} {
				return map[string]interface{}{"o": map[string]interface{}{"limit": 1, "sub": []interface{}{7}}, "l": []interface{}{3, 4}}
			},
			func() []map[string]interface{} {
				o := inDefaults(map[string]interface{}{"limit": 1, "sub": []interface{}{7}})
				return []map[string]interface{}{{"filter": o, "l": []interface{}{3, 4}}, {"filter": o, "l": []interface{}{3, 4}}}
			}},
		{"query($k: Int){ a: f(filter: {limit: $k}) b: f(filter: {sub: [1, $k]}) }", func() map[string]interface{} { return map[string]interface{}{"k": k} }, func() []map[string]interface{} {
			return []map[string]interface{}{{"filter": inDefaults(map[string]interface{}{"limit": k}), "l": defL}, {"filter": inDefaults(map[string]interface{}{"sub": []interface{}{1, k}}), "l": defL}}
		}},
		// one field plan invoked for every element of a list
		{"query($k: Int){ items { f(filter: {sub: [1, $k], tags: [\"x\"]}, l: [$k, 2]) } }", func() map[string]interface{} { return map[string]interface{}{"k": k} }, func() []map[string]interface{} {
			one := func() map[string]interface{} {
				return map[string]interface{}{"filter": inDefaults(map[string]interface{}{"sub": []interface{}{1, k}, "tags": []interface{}{"x"}}), "l": []interface{}{k, 2}}
			}
			return []map[string]interface{}{one(), one()}
		}},
		{"{ items { f } }", nil, func() []map[string]interface{} {
			return []map[string]interface{}{{"filter": def, "l": defL}, {"filter": def, "l": defL}}
		}},
	}
	tc := cases[zzChoice("case", len(cases))]
	check := func(what string) {
		want := tc.want()
		zzAssert(len(seen) == len(want), what+": one invocation per selected field")
		for i := range want {
			zzAssert(zzDeepEqual(seen[i], want[i]), what+": arguments are not the coerced arguments of the field (an earlier invocation's writes show through)")
		}
		seen = nil
	}
	vars := func() map[string]interface{} {
		if tc.vars == nil {
			return nil
		}
		return tc.vars()
	}
	if zzChoice("entry", 2) == 0 {
		r := Do(Params{Schema: schema, RequestString: tc.text, VariableValues: vars()})
		zzAssert(len(r.Errors) == 0, "unexpected errors")
		check("first Do")
		r = Do(Params{Schema: schema, RequestString: tc.text, VariableValues: vars()})
		zzAssert(len(r.Errors) == 0, "unexpected errors")
		check("second Do")
	} else {
		plan, perr := PlanQuery(&schema, zzParse(tc.text), "")
		zzAssert(perr == nil, "PlanQuery")
		r := ExecutePlan(plan, ExecuteParams{Schema: schema, Args: vars()})
		zzAssert(len(r.Errors) == 0, "unexpected errors")
		check("first ExecutePlan")
		r = ExecutePlan(plan, ExecuteParams{Schema: schema, Args: vars()})
		zzAssert(len(r.Errors) == 0, "unexpected errors")
		check("second ExecutePlan of the plan")
	}
	zzCover("end")
}
