package graphql

import "errors"

// ZZ_C15_subscription: event sequences of length 0..2 with arbitrary integer
// payloads (negative ones make the field fail), prompt or stalling consumers,
// cancellation before / between / while a result is pending / never, source
// closing or not; failing requests. One correct result per event in order,
// closure after source close or cancellation, one error result for a failing
// request, and no library goroutine left blocked after cancellation.
func ZZ_C15_subscription() {
	// 0 ok, 1 syntax error, 2 invalid, 3 subscribe error, 4 non-channel source,
	// 5 the subscribe function panics with an error, 6 with a string, 7 returns nil
	// 8 two root fields with different sources: which stream is subscribed to
	//   must not depend on map iteration order
	kind := zzChoice("kind", 9)
	src := make(chan interface{})
	subscription := NewObject(ObjectConfig{Name: "Subscription", Fields: Fields{
		"tick": &Field{Type: Int,
			Subscribe: func(p ResolveParams) (interface{}, error) {
				switch kind {
				case 3:
					return nil, errors.New("cannot subscribe")
				case 4:
					return 5, nil
				case 5:
					panic(errors.New("subscribe boom"))
				case 6:
					panic("subscribe boom")
				case 7:
					return nil, nil
				}
				return src, nil
			},
			Resolve: func(p ResolveParams) (interface{}, error) {
				k, _ := p.Source.(int)
				if k < 0 {
					return nil, errors.New("negative")
				}
				return k, nil
			}},
	}})
	q := NewObject(ObjectConfig{Name: "Query", Fields: Fields{"a": &Field{Type: String}}})
	schema, err := NewSchema(SchemaConfig{Query: q, Subscription: subscription})
	zzAssert(err == nil, "schema")
	ctx := &zzCancelCtx{done: make(chan struct{})}
	req := "subscription { tick }"
	switch kind {
	case 1:
		req = "subscription { tick"
	case 2:
		req = "subscription { nope }"
	}
	checkResult := func(r *Result, payload int) {
		zzAssert(r != nil, "nil result delivered")
		if payload < 0 {
			zzAssert(len(r.Errors) == 1, "failing event: one error expected")
			m, ok := r.Data.(map[string]interface{})
			zzAssert(ok && m["tick"] == nil, "failing event: tick must be null")
		} else {
			zzAssert(len(r.Errors) == 0, "unexpected errors for an event")
			m, ok := r.Data.(map[string]interface{})
			zzAssert(ok && m["tick"] == payload, "result does not carry the event's payload")
		}
	}
	if kind == 8 {
		which := func() string {
			srcA, srcB := make(chan interface{}, 1), make(chan interface{}, 1)
			srcA <- 1
			srcB <- 2
			sub2 := NewObject(ObjectConfig{Name: "Subscription", Fields: Fields{
				"ta": &Field{Type: Int, Subscribe: func(p ResolveParams) (interface{}, error) { return srcA, nil },
					Resolve: func(p ResolveParams) (interface{}, error) { return p.Source, nil }},
				"tb": &Field{Type: Int, Subscribe: func(p ResolveParams) (interface{}, error) { return srcB, nil },
					Resolve: func(p ResolveParams) (interface{}, error) { return p.Source, nil }},
			}})
			s2, err := NewSchema(SchemaConfig{Query: q, Subscription: sub2})
			zzAssert(err == nil, "schema")
			c := &zzCancelCtx{done: make(chan struct{})}
			ch := Subscribe(Params{Schema: s2, RequestString: "subscription { tb ta }", Context: c})
			r := <-ch
			c.cancel()
			out := "?"
			if m, ok := r.Data.(map[string]interface{}); ok {
				if v, ok := m["ta"].(int); ok {
					out = zzItoa(v)
				}
			}
			return out
		}
		base := which()
		zzMapOrder(true, zzParam("D", 1))
		again := which()
		zzMapOrder(false, 0)
		zzAssert(base == again, "the stream a subscription with two root fields subscribes to depends on map iteration order")
		zzCover("oneshot")
		return
	}
	zzSched(true, zzParam("P", 1))
	if kind != 0 {
		if zzChoice("abandon", 2) == 1 {
			// the consumer cancels and never reads the result
			ctx.cancel()
			Subscribe(Params{Schema: schema, RequestString: req, Context: ctx})
			zzSched(false, 0)
			zzAssert(zzQuiesce() == 0, "after cancellation a goroutine started for the subscription is still blocked")
			zzCover("oneshot")
			return
		}
		ch := Subscribe(Params{Schema: schema, RequestString: req, Context: ctx})
		r, ok := <-ch
		zzAssert(ok && r != nil, "a failing request must deliver one result")
		if kind != 4 {
			zzAssert(len(r.Errors) >= 1, "a failing request must deliver an error result")
		} else {
			checkResult(r, 5) // a non-stream source is answered once
		}
		_, ok = <-ch
		zzAssert(!ok, "channel not closed after the single result")
		zzSched(false, 0)
		zzAssert(zzQuiesce() == 0, "a library goroutine is still blocked after a one-shot request")
		zzCover("oneshot")
		return
	}
	n := zzChoice("events", zzParam("MAXEV", 2)+1)
	payloads := make([]int, n)
	isNil := make([]bool, n) // a nil event is an event like any other (the resolver sees no int: tick = 0)
	for i := range payloads {
		if zzChoice("nilev"+zzItoa(i), 2) == 1 {
			isNil[i] = true
			continue
		}
		payloads[i] = zzInt("payload"+zzItoa(i), -2, 2)
	}
	closeSrc := zzChoice("close", 2) == 1
	reads := zzChoice("reads", n+1)          // the consumer reads this many results, then stops
	cancelMode := zzChoice("cancel", 3)      // 0 never, 1 before subscribing, 2 after the consumer stopped
	if cancelMode == 1 {
		ctx.cancel()
	}
	go func() {
		for i, p := range payloads {
			var ev interface{} = p
			if isNil[i] {
				ev = nil
			}
			select {
			case src <- ev:
			case <-ctx.done:
				return
			}
		}
		if closeSrc {
			close(src)
		}
	}()
	ch := Subscribe(Params{Schema: schema, RequestString: req, Context: ctx})
	got := 0
	for got < reads {
		r, ok := <-ch
		if !ok {
			// closed early: only legitimate after cancellation
			zzAssert(cancelMode == 1, "result channel closed before all events were delivered")
			break
		}
		checkResult(r, payloads[got])
		got++
	}
	if cancelMode == 2 {
		ctx.cancel()
	}
	if reads == n && closeSrc && cancelMode == 0 {
		_, ok := <-ch
		zzAssert(!ok, "channel not closed after the source closed")
	}
	zzSched(false, 0)
	leaked := zzQuiesce()
	if cancelMode != 0 {
		zzAssert(leaked == 0, "after cancellation a goroutine started for the subscription is still blocked")
	}
	if cancelMode == 0 && closeSrc && reads == n {
		zzAssert(leaked == 0, "after the source closed a goroutine started for the subscription is still blocked")
	}
	zzCover("stream")
}
