package graphql

import "errors"

// ZZ_C15_subscription: event sequences of length 0..2 with arbitrary integer
// payloads (negative ones make the field fail), prompt or stalling consumers,
// cancellation before / between / while a result is pending / never, source
// closing or not; failing requests. One correct result per event in order,
// closure after source close or cancellation, one error result for a failing
// request, and no library goroutine left blocked after cancellation.
func ZZ_C15_subscription() {
	kind := zzChoice("kind", 5) // 0 ok, 1 syntax error, 2 invalid, 3 subscribe error, 4 non-channel source
	src := make(chan interface{})
	subscription := NewObject(ObjectConfig{Name: "Subscription", Fields: Fields{
		"tick": &Field{Type: Int,
			Subscribe: func(p ResolveParams) (interface{}, error) {
				switch kind {
				case 3:
					return nil, errors.New("cannot subscribe")
				case 4:
					return 5, nil
				}
				return src, nil
			},
			Resolve: func(p ResolveParams) (interface{}, error) {
				k, _ := p.Source.(int)
				if k < 0 {
					return nil, errors.New("negative")
				}
				return k, nil
			}},
	}})
	q := NewObject(ObjectConfig{Name: "Query", Fields: Fields{"a": &Field{Type: String}}})
	schema, err := NewSchema(SchemaConfig{Query: q, Subscription: subscription})
	zzAssert(err == nil, "schema")
	ctx := &zzCancelCtx{done: make(chan struct{})}
	req := "subscription { tick }"
	switch kind {
	case 1:
		req = "subscription { tick"
	case 2:
		req = "subscription { nope }"
	}
	checkResult := func(r *Result, payload int) {
		zzAssert(r != nil, "nil result delivered")
		if payload < 0 {
			zzAssert(len(r.Errors) == 1, "failing event: one error expected")
			m, ok := r.Data.(map[string]interface{})
			zzAssert(ok && m["tick"] == nil, "failing event: tick must be null")
		} else {
			zzAssert(len(r.Errors) == 0, "unexpected errors for an event")
			m, ok := r.Data.(map[string]interface{})
			zzAssert(ok && m["tick"] == payload, "result does not carry the event's payload")
		}
	}
	zzSched(true, zzParam("P", 1))
	if kind != 0 {
		ch := Subscribe(Params{Schema: schema, RequestString: req, Context: ctx})
		r, ok := <-ch
		zzAssert(ok && r != nil, "a failing request must deliver one result")
		if kind != 4 {
			zzAssert(len(r.Errors) >= 1, "a failing request must deliver an error result")
		} else {
			checkResult(r, 5) // a non-stream source is answered once
		}
		_, ok = <-ch
		zzAssert(!ok, "channel not closed after the single result")
		zzSched(false, 0)
		zzAssert(zzQuiesce() == 0, "a library goroutine is still blocked after a one-shot request")
		zzCover("oneshot")
		return
	}
	n := zzChoice("events", zzParam("MAXEV", 2)+1)
	payloads := make([]int, n)
	for i := range payloads {
		payloads[i] = zzInt("payload"+zzItoa(i), -2, 2)
	}
	closeSrc := zzChoice("close", 2) == 1
	reads := zzChoice("reads", n+1)          // the consumer reads this many results, then stops
	cancelMode := zzChoice("cancel", 3)      // 0 never, 1 before subscribing, 2 after the consumer stopped
	if cancelMode == 1 {
		ctx.cancel()
	}
	go func() {
		for _, p := range payloads {
			select {
			case src <- p:
			case <-ctx.done:
				return
			}
		}
		if closeSrc {
			close(src)
		}
	}()
	ch := Subscribe(Params{Schema: schema, RequestString: req, Context: ctx})
	got := 0
	for got < reads {
		r, ok := <-ch
		if !ok {
			// closed early: only legitimate after cancellation
			zzAssert(cancelMode == 1, "result channel closed before all events were delivered")
			break
		}
		checkResult(r, payloads[got])
		got++
	}
	if cancelMode == 2 {
		ctx.cancel()
	}
	if reads == n && closeSrc && cancelMode == 0 {
		_, ok := <-ch
		zzAssert(!ok, "channel not closed after the source closed")
	}
	zzSched(false, 0)
	leaked := zzQuiesce()
	if cancelMode != 0 {
		zzAssert(leaked == 0, "after cancellation a goroutine started for the subscription is still blocked")
	}
	if cancelMode == 0 && closeSrc && reads == n {
		zzAssert(leaked == 0, "after the source closed a goroutine started for the subscription is still blocked")
	}
	zzCover("stream")
}
