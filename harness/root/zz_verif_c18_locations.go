package graphql

import "errors"

// Locations of validation and field errors under re-layout. Each case is a
// one-line document (tokens separated by single blanks) and the token at which
// the error must be located; every blank is replaced by the chosen separator
// (blank, LF, CRLF, CR, LF + indentation), and the expected 1-based line and
// column of the marker are computed from its byte offset.

type zzLocCase struct {
	text   string
	marker string // the offending node starts at the first occurrence of this text
	nth    int    // ... or at its nth occurrence (0-based)
	field  bool   // a field error (the resolver of the marked field fails) rather than a validation error
}

var zzLocCases = []zzLocCase{
	{"{ a nope b }", "nope", 0, false},                                  // FieldsOnCorrectType: the field
	{"{ a i ( zz : 1 ) }", "zz", 0, false},                              // KnownArgumentNames: the argument
	{"{ a ... on Nope { a } }", "Nope", 0, false},                       // KnownTypeNames: the named type
	{"{ a @ nope b }", "@", 0, false},                                   // KnownDirectives: the directive
	{"{ a ... Missing }", "Missing", 0, false},                          // KnownFragmentNames: the spread's name
	{"{ a { x } }", "{", 1, false},                                      // ScalarLeafs: the selection set that must not be there
	{"{ o }", "o", 0, false},                                            // ScalarLeafs (missing selection): the field
	{"query Q ( $k : Int ) { a }", "$", 0, false},                       // NoUnusedVariables: the variable definition
	{"{ a i ( v : $u ) }", "$", 0, false},                               // NoUndefinedVariables: the variable use
	{"{ a } fragment F on Query { b }", "fragment", 0, false},           // NoUnusedFragments: the definition
	{"{ r }", "r", 0, false},                                            // ProvidedNonNullArguments: the field
	{"{ i ( v : \"s\" ) }", "\"s\"", 0, false},                          // ArgumentsOfCorrectType: the value
	{"{ a o { x ynn } b }", "ynn", 0, true},                             // field error: the failing field
	{"{ a ol { x q : ynn } }", "q", 0, true},                            // field error under a list, aliased
}

var zzLocSeps = []string{" ", "\n", "\r\n", "\r", "\n  ", "\r\n\t"}

func ZZ_C18_locations() {
	c := zzLocCases[zzChoice("case", len(zzLocCases))]
	sep := zzLocSeps[zzChoice("sep", len(zzLocSeps))]
	text := ""
	off := -1
	seen := 0
	for i := 0; i < len(c.text); i++ {
		if off < 0 && i+len(c.marker) <= len(c.text) && c.text[i:i+len(c.marker)] == c.marker &&
			(i == 0 || c.text[i-1] == ' ') {
			if seen == c.nth {
				off = len(text)
			}
			seen++
		}
		if c.text[i] == ' ' {
			text += sep
		} else {
			text += string(c.text[i])
		}
	}
	zzAssert(off >= 0, "harness: marker not found")
	// expected line / column of byte offset off
	b := []byte(text)
	line, lineStart := 1, 0
	for i := 0; i < off; i++ {
		if b[i] == '\r' && i+1 < len(b) && b[i+1] == '\n' {
			line++
			lineStart = i + 2
			i++
			continue
		}
		if b[i] == '\n' || b[i] == '\r' {
			line++
			lineStart = i + 1
		}
	}
	col := off + 1 - lineStart
	w := &zzWorld{}
	if c.field {
		w.hook = func(parent, field string, p ResolveParams) (interface{}, error, bool) {
			if field == "ynn" {
				return nil, errors.New("boom"), true
			}
			return nil, nil, false
		}
	}
	schema := zzBuildSchema(w)
	r := Do(Params{Schema: schema, RequestString: text})
	zzAssert(len(r.Errors) >= 1, "no error reported")
	found := false
	for _, e := range r.Errors {
		for _, l := range e.Locations {
			zzAssert(l.Line >= 1 && l.Column >= 1, "a location is not 1-based")
			if l.Line == line && l.Column == col {
				found = true
			}
		}
	}
	if !found {
		got := ""
		for _, e := range r.Errors {
			for _, l := range e.Locations {
				got += " " + zzItoa(l.Line) + ":" + zzItoa(l.Column)
			}
		}
		zzFail("no error is located at the start of the offending node (want " + zzItoa(line) + ":" + zzItoa(col) + ", got" + got + ") in " + c.text)
	}
	zzCover("end")
}
