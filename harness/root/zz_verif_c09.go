package graphql

import (
	"fmt"
	"math"
	"reflect"

	"github.com/graphql-go/graphql/language/parser"
	"github.com/graphql-go/graphql/language/source"
)

// zzSmallSchema: a schema whose shortest valid queries are 3 bytes long, so
// that arbitrary short byte strings reach validation and execution.
func zzSmallSchema() Schema {
	var obj *Object
	obj = NewObject(ObjectConfig{Name: "O", Fields: FieldsThunk(func() Fields {
		return Fields{
			"a": &Field{Type: String, Resolve: func(p ResolveParams) (interface{}, error) { return "x", nil }},
			"o": &Field{Type: obj, Resolve: func(p ResolveParams) (interface{}, error) { return 1, nil }},
		}
	})})
	q := NewObject(ObjectConfig{Name: "Q", Fields: Fields{
		"a": &Field{Type: String, Resolve: func(p ResolveParams) (interface{}, error) { return "x", nil }},
		"b": &Field{Type: Int, Args: FieldConfigArgument{"a": &ArgumentConfig{Type: Int}},
			Resolve: func(p ResolveParams) (interface{}, error) { return p.Args["a"], nil }},
		"o": &Field{Type: obj, Resolve: func(p ResolveParams) (interface{}, error) { return 1, nil }},
		"f": &Field{Type: Float, Args: FieldConfigArgument{"x": &ArgumentConfig{Type: Float}},
			Resolve: func(p ResolveParams) (interface{}, error) { return p.Args["x"], nil }},
	}})
	sub := NewObject(ObjectConfig{Name: "S", Fields: Fields{
		"a": &Field{Type: String,
			Subscribe: func(p ResolveParams) (interface{}, error) { return "ev", nil },
			Resolve:   func(p ResolveParams) (interface{}, error) { return "x", nil }},
		"o": &Field{Type: obj,
			Subscribe: func(p ResolveParams) (interface{}, error) { return "ev", nil },
			Resolve:   func(p ResolveParams) (interface{}, error) { return 1, nil }},
	}})
	s, err := NewSchema(SchemaConfig{Query: q, Subscription: sub})
	if err != nil {
		panic(err)
	}
	return s
}

// zzJSONable: the value tree contains only kinds encoding/json can encode.
func zzJSONable(v interface{}, depth int) bool {
	if v == nil || depth > 20 {
		return true
	}
	switch x := v.(type) {
	case map[string]interface{}:
		for _, e := range x {
			if !zzJSONable(e, depth+1) {
				return false
			}
		}
		return true
	case []interface{}:
		for _, e := range x {
			if !zzJSONable(e, depth+1) {
				return false
			}
		}
		return true
	case string, bool, int, int8, int16, int32, int64, uint, uint8, uint16, uint32, uint64:
		return true
	case float64:
		return !math.IsNaN(x) && !math.IsInf(x, 0)
	case float32:
		return !math.IsNaN(float64(x)) && !math.IsInf(float64(x), 0)
	}
	switch reflect.ValueOf(v).Kind() {
	case reflect.Func, reflect.Chan, reflect.UnsafePointer, reflect.Complex64, reflect.Complex128:
		return false
	}
	return true
}

func zzCheckResult(r *Result, what string) {
	zzAssert(r != nil, what+": nil result")
	if r.Data == nil {
		zzAssert(len(r.Errors) >= 1, what+": no data and no error")
	}
	zzAssert(zzJSONable(r.Data, 0), what+": data not serialisable to JSON")
}

// zzGuard runs f and turns a panic into an assertion failure carrying the panic text.
func zzGuard(what string, f func()) {
	defer func() {
		if r := recover(); r != nil {
			if _, ok := r.(zzAssertFailed); ok {
				panic(r)
			}
			if _, ok := r.(zzAssumeViolated); ok {
				panic(r)
			}
			zzFail(what + ": panic: " + zzShort(fmt.Sprint(r)))
		}
	}()
	f()
}

func zzShort(s string) string {
	if len(s) > 80 {
		return s[:80]
	}
	return s
}

// ZZ_C09_parse_bytes: parser.Parse never panics on any byte string of up to N
// bytes, returns a document or an error, and leaves the input unchanged.
func ZZ_C09_parse_bytes() {
	n := zzChoice("n", zzParam("N", 4)+1)
	body := zzBytes("body", n)
	orig := append([]byte(nil), body...)
	zzGuard("parser.Parse", func() {
		doc, err := parser.Parse(parser.ParseParams{Source: &source.Source{Body: body, Name: "x"}})
		zzAssert((doc == nil) != (err == nil) || (doc != nil && err == nil), "Parse returns a document or an error")
		if err != nil {
			zzAssert(zzShortNonEmpty(err.Error()), "syntax error has a message")
		}
	})
	zzAssert(zzBytesEq(body, orig), "Parse modified its input")
	zzCover("end")
}

func zzShortNonEmpty(s string) bool { return len(s) > 0 }

// ZZ_C09_do_bytes: graphql.Do on every request string of up to N bytes: no
// panic, well-formed result, no data when parsing or validation failed.
func ZZ_C09_do_bytes() {
	n := zzChoice("n", zzParam("N", 4)+1)
	req := zzString("req", n)
	schema := zzSmallSchema()
	zzGuard("Do", func() {
		r := Do(Params{Schema: schema, RequestString: req})
		zzCheckResult(r, "Do")
		if r.Data != nil {
			zzCover("executed")
		}
	})
	zzCover("end")
}

var zzSeeds = []string{
	"query($a:Int){b(a:$a)}",
	"{a ...F} fragment F on Q{a}",
	"query A{a} query B{b}",
	"{o{a}}",
	"mutation{a}",
	"{b(a:[1])}",
	"{a @skip(if:true)}",
	"type T{a:Int}",
	"{...on Q{a}}",
	"fragment F on Q{...F}",
	"query($a:[Int!]=[1]){a}",
	"subscription{a}",
	"{b(a:{x:1})}",
	"{b(a:-1.5e3)}",
	"{a:a a:b}",
	"query($a:In){a}",
	"{__typename __schema{types{name}}}",
}

// ZZ_C09_do_seeds: seed documents with a window of W arbitrary bytes written
// at an arbitrary offset, sent through Do with an arbitrary small variable map.
func ZZ_C09_do_seeds() {
	si := zzChoice("seed", len(zzSeeds))
	seed := zzSeeds[si]
	w := zzParam("W", 2)
	off := zzChoice("off", len(seed)-w+1)
	win := zzString("win", w)
	req := seed[:off] + win + seed[off+w:]
	schema := zzSmallSchema()
	var vars map[string]interface{}
	nv := 1
	if zzHasByte(seed, '$') {
		nv = 4
	}
	switch zzChoice("vars", nv) {
	case 1:
		vars = map[string]interface{}{"a": int(zzInt64("va"))}
	case 2:
		vars = map[string]interface{}{"a": []interface{}{nil, "x"}}
	case 3:
		vars = map[string]interface{}{"a": map[string]interface{}{"x": 1.5}}
	}
	opName := ""
	if si == 2 && zzChoice("op", 2) == 1 {
		opName = "B"
	}
	zzGuard("Do", func() {
		r := Do(Params{Schema: schema, RequestString: req, VariableValues: vars, OperationName: opName})
		zzCheckResult(r, "Do")
		if r.Data != nil {
			zzCover("executed")
		}
	})
	zzCover("end")
}

func zzHasByte(s string, c byte) bool {
	for i := 0; i < len(s); i++ {
		if s[i] == c {
			return true
		}
	}
	return false
}

var zzNasty = []string{
	"{a ...F} fragment F on Q{...G} fragment G on Q{...F}",
	"fragment F on Q{...F}",
	"{...F}",
	"{a{b}}",
	"{o}",
	"{zz}",
	"query A{a} query A{b}",
	"query A{a} query B{b}",
	"type T{a:Int}",
	"type T{a:Int} {a}",
	"query($a:Nope){a}",
	"query($a:[Int!]!=[1,null]){b(a:$a)}",
	"{b(a:$nope)}",
	"{b(a:{x:{y:[1,{z:2}]}})}",
	"mutation{a}",
	"subscription{a}",
	"subscription{a b}",
	"{...on Nope{a}}",
	"{... @skip(if:$x){a}}",
	"{a @include(if:1)}",
	"{a @skip}",
	"{a @nope(x:1)}",
	"{__type(name:1){name}}",
	"{__typename @skip(if:true)}",
	"{o{...on O{a ...on O{a ...on O{a}}}}}",
	"schema{query:Q}",
	"extend type Q{z:Int}",
	"{b(a:1,a:2)}",
	"{o{a a:__typename}}",
	"",
	"{ o{...F} } fragment F on O{ a o{...F} }",
	"{ ...F } fragment F on Q{ a o{ o{ ...G } } } fragment G on O{ a o{ ...G } }",
	"{ o{a} o }",
	"{ ...F o } fragment F on Q{ o{a} }",
	"{ o o{a} }",
	"{ o{ o{a} o } }",
	"{ a{x} a }",
	"{ o{a}{a} }",
	"query($a:Int){ b(a:$a) b(a:1) }",
	"query($x:Float){ f(x:$x) }",
	"subscription{ ...F } fragment F on S{ a ...F }",
	"subscription{ ...F } fragment F on S{ a ... on S{ ...F } }",
	"subscription{ ...F } fragment F on S{ ... { ...G } } fragment G on S{ a ... on S{ ... { ...F } } }",
	"subscription{ o{ ...H } } fragment H on O{ a ... on O{ ...H } }",
	"subscription{ a @skip(if:true) }",
}

// ZZ_C09_unvalidated: parsed but unvalidated documents handed directly to
// validation, planning, execution, subscription and the plan cache.
func ZZ_C09_unvalidated() {
	si := zzChoice("doc", len(zzNasty))
	text := zzNasty[si]
	schema := zzSmallSchema()
	ep := zzChoice("entry", 6)
	opName := ""
	if zzChoice("op", 2) == 1 {
		opName = "B"
	}
	doc, err := parser.Parse(parser.ParseParams{Source: &source.Source{Body: []byte(text), Name: "x"}})
	if err != nil {
		zzCover("unparsable")
		if ep < 4 {
			return
		}
	}
	zzGuard("unvalidated document", func() {
		switch ep {
		case 0:
			vr := ValidateDocument(&schema, doc, nil)
			zzAssert(vr.IsValid == (len(vr.Errors) == 0), "ValidateDocument: IsValid iff no errors")
		case 1:
			r := Execute(ExecuteParams{Schema: schema, AST: doc, OperationName: opName, Args: zzC09Vars(si)})
			zzCheckResult(r, "Execute")
		case 2:
			plan, err := PlanQuery(&schema, doc, opName)
			zzAssert((plan == nil) == (err != nil), "PlanQuery returns a plan or an error")
			r := ExecutePlan(plan, ExecuteParams{Schema: schema})
			zzCheckResult(r, "ExecutePlan")
		case 3:
			ch := ExecuteSubscription(ExecuteParams{Schema: schema, AST: doc, OperationName: opName})
			r, ok := <-ch
			if ok {
				zzCheckResult(r, "ExecuteSubscription")
			}
		case 4, 5:
			c := NewPlanCache(PlanCacheOptions{Normalize: ep == 5, MaxEntries: 1})
			pr := c.Get(&schema, text, opName)
			zzAssert((pr.Plan == nil) == (len(pr.Errors) > 0), "PlanCache.Get returns a plan or errors")
			if pr.Plan != nil {
				r := ExecutePlan(pr.Plan, ExecuteParams{Schema: schema, Args: pr.SynthArgs})
				zzCheckResult(r, "ExecutePlan(cached)")
			}
			var nilCache *PlanCache
			pr2 := nilCache.Get(&schema, text, opName)
			zzAssert((pr2.Plan == nil) == (len(pr2.Errors) > 0), "nil PlanCache.Get returns a plan or errors")
		}
	})
	zzCover("end")
}

// zzC09Vars: variable maps for the documents that declare variables.
func zzC09Vars(si int) map[string]interface{} {
	if zzContains2(zzNasty[si], "$x:Float") {
		switch zzChoice("fvar", 4) {
		case 0:
			return map[string]interface{}{"x": "Inf"}
		case 1:
			return map[string]interface{}{"x": "NaN"}
		case 2:
			return map[string]interface{}{"x": "-Infinity"}
		}
		return map[string]interface{}{"x": 1.5}
	}
	return nil
}

func zzContains2(s, sub string) bool {
	for i := 0; i+len(sub) <= len(s); i++ {
		if s[i:i+len(sub)] == sub {
			return true
		}
	}
	return false
}
