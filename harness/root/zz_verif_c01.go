package graphql

var zzRootMenu = []string{
	"a", "x:a", "a @skip(if:$v)", "a @include(if:$w)", "b @skip(if:$v) @include(if:$w)",
	"o{x}", "o{y}", "o @skip(if:$v){y}", "o @include(if:$w){x o{x}}",
	"...F", "...F @skip(if:$v)", "...G @include(if:$w)",
	"... on Query{a o{y}}", "... @skip(if:$v){b o{x}}", "... @include(if:$w){...F}",
	"n{id ... on Obj{x} ... on Other{z}}", "n @skip(if:$v){id}", "u{... on Obj{y} __typename}",
	"ol{x}", "ol @skip(if:$w){y}", "i", "i(v:3)", "i(w:$k)", "x:i(v:$k,w:2)",
	"a @skip(if:true)", "a @include(if:false)", "o{x @skip(if:$v) x}", "o{o{y} ...H}",
	"io(in:{b:\"x\",a:$k})", "li(l:[1,$k])", "o{...H @skip(if:$v) ...H @include(if:$w)}",
	"io(in:{b:\"y\",c:3})", "li(l:[4,5])", "io(in:{b:\"x\",n:{b:\"y\",a:$k}})", "ol{o{x} n{id}}",
	"o{...NF}", "q:o{...NF n{id ... on Other{z}}}",
}

// zzRootMenuCore: indexes of the items that interact (merging, conditions, fragments, abstract types)
var zzRootMenuCore = []int{5, 7, 10, 14, 16, 27}

const zzFragF = " fragment F on Query{a o{y} ...G}"
const zzFragG = " fragment G on Query{b o{x @include(if:$w)}}"
const zzFragH = " fragment H on Obj{y o @skip(if:$v){x}}"
const zzFragNF = " fragment NF on Obj{n{... on Obj{x}}}"

func zzContains(s, sub string) bool {
	for i := 0; i+len(sub) <= len(s); i++ {
		if s[i:i+len(sub)] == sub {
			return true
		}
	}
	return false
}

// zzBuildDoc assembles a valid document from menu picks.
func zzBuildDoc(picks []int) string {
	body := ""
	for _, p := range picks {
		body += " " + zzRootMenu[p]
	}
	frags := ""
	if zzContains(body, "...F") {
		frags += zzFragF + zzFragG
	} else if zzContains(body, "...G") {
		frags += zzFragG
	}
	if zzContains(body, "...H") {
		frags += zzFragH
	}
	if zzContains(body, "...NF") {
		frags += zzFragNF
	}
	all := body + frags
	vars := ""
	if zzContains(all, "$v") {
		vars += "$v:Boolean!"
	}
	if zzContains(all, "$w") {
		vars += " $w:Boolean!"
	}
	if zzContains(all, "$k") {
		vars += " $k:Int"
	}
	head := "query Q"
	if vars != "" {
		head += "(" + vars + ")"
	}
	return head + "{" + body + " }" + frags
}

func zzSameCalls(got []zzCall, want []string) bool {
	if len(got) != len(want) {
		return false
	}
	used := make([]bool, len(want))
	for _, c := range got {
		k := c.Parent + "." + c.Field + "@" + c.Path
		found := false
		for i, w := range want {
			if !used[i] && w == k {
				used[i] = true
				found = true
				break
			}
		}
		if !found {
			return false
		}
	}
	return true
}

func zzVarsFor(text, sfx string) map[string]interface{} {
	vars := map[string]interface{}{}
	if zzContains(text, "$v") {
		vars["v"] = zzBool("v" + sfx)
	}
	if zzContains(text, "$w") {
		vars["w"] = zzBool("w" + sfx)
	}
	if zzContains(text, "$k") {
		vars["k"] = zzInt("k"+sfx, -100000, 100000)
	}
	return vars
}

// ZZ_C01_exec: for every document of the template family and every value of
// its variables, the response equals the reference executor's data tree, no
// errors are reported, and resolvers are invoked exactly for the fields the
// reference executes (each once).
func ZZ_C01_exec() {
	nsel := zzParam("W", 2)
	picks := make([]int, nsel)
	for i := range picks {
		if i >= 2 {
			// a third (and later) selection comes from the core items: the full cube is ~10^5 documents
			picks[i] = zzRootMenuCore[zzChoice("pick"+zzItoa(i), len(zzRootMenuCore))]
			continue
		}
		picks[i] = zzChoice("pick"+zzItoa(i), len(zzRootMenu))
	}
	text := zzBuildDoc(picks)
	w := &zzWorld{}
	abstract := zzContains(text, "n{") || zzContains(text, "n @") || zzContains(text, "u{")
	if abstract {
		if zzChoice("rt", 2) == 1 {
			w.runtimeN = "Other"
		}
		w.useIsTypeOf = zzChoice("isTypeOf", 2) == 1
	}
	schema := zzBuildSchema(w)
	doc := zzParse(text)
	// the property quantifies over valid documents: picks whose fields conflict
	// (same response key, different arguments) are dropped
	if vr := ValidateDocument(&schema, doc, nil); !vr.IsValid {
		zzCover("invalid-pick")
		return
	}
	mode := zzChoice("mode", 2)
	if mode == 0 {
		vars := zzVarsFor(text, "")
		r := Do(Params{Schema: schema, RequestString: text, VariableValues: vars})
		want, wantCalls := zzRefExecute(w, doc, "", vars)
		zzAssert(len(r.Errors) == 0, "Do: unexpected errors for a valid document")
		zzAssert(zzDeepEqual(r.Data, want), "Do: data differs from the execution algorithm's")
		zzAssert(zzSameCalls(w.calls, wantCalls), "Do: resolver invocations differ from the selected fields")
		zzCover("do")
		return
	}
	plan, err := PlanQuery(&schema, doc, "")
	zzAssert(err == nil && plan != nil, "PlanQuery failed on a valid document")
	for run := 0; run < 2; run++ {
		vars := zzVarsFor(text, zzItoa(run))
		w.calls = nil
		if run == 1 && abstract {
			// the second execution of the plan may meet the other runtime type
			w.runtimeN = []string{"", "Other"}[zzChoice("rt2", 2)]
		}
		r := ExecutePlan(plan, ExecuteParams{Schema: schema, Args: vars})
		want, wantCalls := zzRefExecute(w, doc, "", vars)
		zzAssert(len(r.Errors) == 0, "ExecutePlan: unexpected errors for a valid document")
		zzAssert(zzDeepEqual(r.Data, want), "ExecutePlan: data differs from the execution algorithm's")
		zzAssert(zzSameCalls(w.calls, wantCalls), "ExecutePlan: resolver invocations differ from the selected fields")
	}
	zzCover("plan")
}
