package graphql

const zzCostFiles = "/plan.go,/rules_overlapping_fields_can_be_merged.go,/validator.go,/rules.go,/type_info.go"

func zzCost(f func()) int {
	before := zzSteps(zzCostFiles)
	f()
	return zzSteps(zzCostFiles) - before
}

func zzValidateAndPlan(schema *Schema, text string) {
	doc := zzParse(text)
	vr := ValidateDocument(schema, doc, nil)
	if vr.IsValid {
		PlanQuery(schema, doc, "")
	}
}

func zzFragName(i int) string { return "F" + zzItoa(i) }

// ZZ_C19_topologies: every fragment-spread topology over K fragments (any
// subset of spreads per fragment, cycles and self-spreads included) validates
// and plans within a polynomial instruction bound.
func ZZ_C19_topologies() {
	k := zzParam("K", 3)
	self := zzParam("SELF", 1) == 1
	w := &zzWorld{}
	schema := zzBuildSchema(w)
	text := "{ a ...F0 }"
	for i := 0; i < k; i++ {
		body := " a o{x}"
		for j := 0; j < k; j++ {
			if i == j && !self {
				continue
			}
			if zzChoice("e"+zzItoa(i)+"_"+zzItoa(j), 2) == 1 {
				body += " ..." + zzFragName(j)
			}
		}
		text += " fragment " + zzFragName(i) + " on Query{" + body + " }"
	}
	cost := zzCost(func() { zzValidateAndPlan(&schema, text) })
	bound := zzParam("C", 6000) * (k + 1) * (k + 1) * 9
	zzAssert(cost <= bound, "validation+planning cost exceeds the polynomial bound")
	b := 1
	for b < cost {
		b *= 2
	}
	zzNote("cost<=" + zzItoa(b))
	zzCover("end")
}

func zzFamily(fam, n int) string {
	switch fam {
	case 0: // chain of n fragments
		text := "{ ...F0 }"
		for i := 0; i < n; i++ {
			body := "a"
			if i+1 < n {
				body = "a ..." + zzFragName(i+1)
			}
			text += " fragment " + zzFragName(i) + " on Query{" + body + "}"
		}
		return text
	case 1: // fan
		text := "{"
		for i := 0; i < n; i++ {
			text += " ..." + zzFragName(i)
		}
		text += " }"
		for i := 0; i < n; i++ {
			text += " fragment " + zzFragName(i) + " on Query{a o{x}}"
		}
		return text
	case 2: // the same fragment spread at n sites
		text := "{"
		for i := 0; i < n; i++ {
			text += " ...F0"
		}
		return text + " } fragment F0 on Query{a b o{x y}}"
	case 3: // wide selection set with repeated response keys
		text := "{"
		for i := 0; i < n; i++ {
			text += " a o{x}"
		}
		return text + " }"
	case 4: // dense acyclic spreading: Fi spreads every Fj with j>i (exponential without memoisation)
		text := "{ ...F0 }"
		for i := 0; i < n; i++ {
			body := "a"
			for j := i + 1; j < n; j++ {
				body += " ..." + zzFragName(j)
			}
			text += " fragment " + zzFragName(i) + " on Query{" + body + "}"
		}
		return text
	case 5: // nesting depth through an abstract field
		text := "{ "
		for i := 0; i < n; i++ {
			text += "n{ ... on Obj{ "
		}
		text += "id"
		for i := 0; i < n; i++ {
			text += " } }"
		}
		return text + " }"
	case 6: // nested list literal
		text := "{ i(v: 1) s(t: \"x\") b"
		for i := 0; i < n; i++ {
			text += " x" + zzItoa(i) + ":o{o{x}}"
		}
		return text + " }"
	case 7, 8, 9: // diamond chain (every fragment spreads the next one twice) under variable-driven directives
		text := "query Q($v: Boolean!, $w: Boolean!) { ...F0 @include(if: $v) }"
		d1, d2 := "", ""
		if fam == 8 {
			d1, d2 = " @include(if: $v)", " @include(if: $v)"
		}
		if fam == 9 {
			d1, d2 = " @include(if: $v)", " @skip(if: $w)"
		}
		for i := 0; i < n; i++ {
			body := "a"
			if i+1 < n {
				body = "a ..." + zzFragName(i+1) + d1 + " ..." + zzFragName(i+1) + d2
			}
			text += " fragment " + zzFragName(i) + " on Query{" + body + "}"
		}
		return text
	case 10: // the same response key repeated under different variable-driven directives, nested
		text := "query Q($v: Boolean!, $w: Boolean!) {"
		for i := 0; i < n; i++ {
			text += " o @include(if: $v) { x o { y } } o @skip(if: $w) { y o { x } }"
		}
		return text + " }"
	case 11:
		// two chains of fragments spread side by side; at every level the same
		// keys are met under different object types (mutually exclusive: x1, x2)
		// and on the interface itself (not exclusive: y1, y2), so the pair
		// (Fi+1, Gi+1) is asked for repeatedly with alternating exclusivity
		text := "{ start { ...F0 ...G0 } }"
		for i := 0; i < n; i++ {
			for c := 0; c < 2; c++ {
				frag, on := "F", "A"
				if c == 1 {
					frag, on = "G", "B"
				}
				next := frag + zzItoa(i+1)
				text += " fragment " + frag + zzItoa(i) + " on Node {"
				for k := 1; k <= 2; k++ {
					text += " ... on " + on + " { x" + zzItoa(k) + ": next { ..." + next + " } } y" + zzItoa(k) + ": next { ..." + next + " }"
				}
				text += " }"
			}
		}
		return text + " fragment F" + zzItoa(n) + " on Node { id } fragment G" + zzItoa(n) + " on Node { id }"
	case 12:
		// a chain of fragments, each spreading the next one under two object fields:
		// the document grows linearly, the response positions double per link
		text := "{ o { ...F0 } }"
		for i := 0; i < n; i++ {
			text += " fragment " + zzFragName(i) + " on Obj { o { ..." + zzFragName(i+1) + " } p: o { ..." + zzFragName(i+1) + " } }"
		}
		return text + " fragment " + zzFragName(n) + " on Obj { x }"
	}
	return "{ a }"
}

func zzC19ChainSchema() Schema {
	node := NewInterface(InterfaceConfig{Name: "Node", Fields: Fields{"id": &Field{Type: String}}})
	node.AddFieldConfig("next", &Field{Type: node})
	mk := func(name string) *Object {
		return NewObject(ObjectConfig{Name: name, Interfaces: []*Interface{node},
			Fields: Fields{"id": &Field{Type: String}, "next": &Field{Type: node}}})
	}
	a, b := mk("A"), mk("B")
	node.ResolveType = func(p ResolveTypeParams) *Object { return a }
	s, err := NewSchema(SchemaConfig{Query: NewObject(ObjectConfig{Name: "Query", Fields: Fields{"start": &Field{Type: node}}}), Types: []Type{a, b}})
	if err != nil {
		panic(err)
	}
	return s
}

// ZZ_C19_growth: for each scaled family, doubling the size multiplies the cost
// of validation+planning by at most 12 (i.e. growth is at most cubic).
func ZZ_C19_growth() {
	fam := zzChoice("family", 13)
	w := &zzWorld{}
	schema := zzBuildSchema(w)
	n := zzParam("N", 6)
	if fam == 11 {
		schema = zzC19ChainSchema()
	}
	c1 := zzCost(func() { zzValidateAndPlan(&schema, zzFamily(fam, n)) })
	c2 := zzCost(func() { zzValidateAndPlan(&schema, zzFamily(fam, 2*n)) })
	zzAssert(c1 > 0, "cost counters are not attributed")
	zzAssert(c2 <= 12*c1, "doubling the document size multiplied the cost by more than 12")
	zzCover("end")
}

// ZZ_C19_abstract: planning cost of a query through an abstract field does not
// depend on the number of implementers; nesting depth costs linearly; executing
// plans only the runtime types actually met.
func ZZ_C19_abstract() {
	useUnion := zzChoice("abstract", 2) == 1
	mk := func(nimpl int) Schema {
		node := NewInterface(InterfaceConfig{Name: "Node", Fields: Fields{"id": &Field{Type: String}}})
		var objs []*Object
		var abstract Output = node
		var uni *Union
		fields := FieldsThunk(func() Fields {
			return Fields{"id": &Field{Type: String, Resolve: func(p ResolveParams) (interface{}, error) { return "i", nil }},
				"n": &Field{Type: abstract, Resolve: func(p ResolveParams) (interface{}, error) { return 1, nil }}}
		})
		for i := 0; i < nimpl; i++ {
			objs = append(objs, NewObject(ObjectConfig{Name: "Impl" + zzItoa(i), Fields: fields, Interfaces: []*Interface{node}}))
		}
		node.ResolveType = func(p ResolveTypeParams) *Object { return objs[0] }
		if useUnion {
			uni = NewUnion(UnionConfig{Name: "U", Types: objs, ResolveType: func(p ResolveTypeParams) *Object { return objs[0] }})
			abstract = uni
		}
		q := NewObject(ObjectConfig{Name: "Query", Fields: Fields{"n": &Field{Type: abstract, Resolve: func(p ResolveParams) (interface{}, error) { return 1, nil }}}})
		var types []Type
		for _, o := range objs {
			types = append(types, o)
		}
		s, err := NewSchema(SchemaConfig{Query: q, Types: types})
		if err != nil {
			panic(err)
		}
		return s
	}
	depthDoc := func(d int) string {
		text := "{ "
		for i := 0; i < d; i++ {
			if useUnion {
				text += "n{ ... on Impl0{ "
			} else {
				text += "n{ "
			}
		}
		text += "id"
		for i := 0; i < d; i++ {
			if useUnion {
				text += " }"
			}
			text += " }"
		}
		return text + " }"
	}
	planCost := func(s *Schema, text string) int {
		doc := zzParse(text)
		return zzCost(func() { PlanQuery(s, doc, "") })
	}
	s1, s6 := mk(1), mk(6)
	zzAssert(planCost(&s1, depthDoc(4)) == planCost(&s6, depthDoc(4)), "planning cost depends on the number of possible types of an abstract field")
	c2, c4, c6 := planCost(&s6, depthDoc(2)), planCost(&s6, depthDoc(4)), planCost(&s6, depthDoc(6))
	zzAssert(c6-c4 == c4-c2, "planning cost is not linear in the nesting depth through abstract fields")
	// executing plans only the runtime type actually met: the work done in the
	// planner during execution does not depend on how many possible types exist
	execCost := func(s *Schema) int {
		plan, _ := PlanQuery(s, zzParse(depthDoc(3)), "")
		return zzCost(func() {
			r := ExecutePlan(plan, ExecuteParams{Schema: *s})
			zzAssert(len(r.Errors) == 0, "execution failed")
		})
	}
	zzAssert(execCost(&s1) == execCost(&s6), "execution planned runtime types that were never met")
	zzCover("end")
}
