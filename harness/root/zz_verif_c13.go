package graphql

import "github.com/graphql-go/graphql/language/ast"

var zzMutMenu = []string{"m1", "m2", "m3", "x:m1", "mo{x}", "mo{y o{x}}", "...MF", "m2 @skip(if:$v)"}

const zzFragMF = " fragment MF on Mutation{m3 mo{id}}"

// ZZ_C13_serial: top-level mutation fields take effect one after another in
// document order, whatever mix of plain values and deferred thunks resolvers
// return and whatever order hash maps are iterated in.
func ZZ_C13_serial() {
	nsel := zzParam("W", 3)
	body, rbody := "", ""
	for i := 0; i < nsel; i++ {
		pick := zzMutMenu[zzChoice("pick"+zzItoa(i), len(zzMutMenu))]
		body += " " + pick
		rbody = " " + pick + rbody // the same selections in reverse order
	}
	// one more selection from the first W3 menu items (repeats of plain fields
	// behind conditional duplicates)
	if w3 := zzParam("W3", 0); w3 > 0 {
		pick := zzMutMenu[zzChoice("pickLast", w3)]
		body += " " + pick
		rbody = " " + pick + rbody
	}
	// entry point: Do; a prepared plan; a normalising plan cache that has already
	// served the same selections in the reverse order
	via := zzChoice("via", 3)
	frags := ""
	if zzContains(body, "...MF") {
		frags = zzFragMF
	}
	head := "mutation M"
	vars := map[string]interface{}{}
	if zzContains(body, "$v") {
		head += "($v:Boolean!)"
		vars["v"] = zzBool("v")
	}
	text := head + "{" + body + " }" + frags
	rtext := head + "{" + rbody + " }" + frags
	w := &zzWorld{}
	schema := zzBuildSchema(w)
	doc := zzParse(text)
	if vr := ValidateDocument(&schema, doc, nil); !vr.IsValid {
		zzCover("invalid-pick")
		return
	}
	// expected order of top-level response keys
	want, _ := zzRefExecute(w, doc, "", vars)
	ref := &zzRef{w: w, vars: vars}
	ref.frags = nil
	var order []string // top-level keys in document (collection) order
	{
		r2 := &zzRef{w: w, vars: vars, frags: zzFragsOf(doc)}
		var groups []zzGroup
		r2.collect("Mutation", zzOpOf(doc).SelectionSet, map[string]bool{}, &groups)
		for _, g := range groups {
			order = append(order, g.key)
		}
	}
	// events: every resolver start and every thunk run, tagged by top-level key
	var events []string
	thunkMask := zzChoice("thunks", 1<<uint(len(order))) // which top-level fields (and their children) defer their result
	w.hook = func(parent, field string, p ResolveParams) (interface{}, error, bool) {
		path := zzPathString(p.Info.Path)
		top := zzTopKey(path)
		events = append(events, top)
		idx := -1
		for i, k := range order {
			if k == top {
				idx = i
			}
		}
		if idx >= 0 && thunkMask&(1<<uint(idx)) != 0 {
			spec := zzFieldSpecOf(zzTypeSpecOf(parent), field)
			return func() (interface{}, error) {
				events = append(events, top)
				return w.defaultResolve(parent, spec, p)
			}, nil, true
		}
		return nil, nil, false
	}
	var r *Result
	switch via {
	case 0:
		zzMapOrder(true, zzParam("D", 1))
		r = Do(Params{Schema: schema, RequestString: text, VariableValues: vars})
		zzMapOrder(false, 0)
	case 1:
		plan, perr := PlanQuery(&schema, doc, "")
		zzAssert(perr == nil, "PlanQuery")
		zzMapOrder(true, zzParam("D", 1))
		r = ExecutePlan(plan, ExecuteParams{Schema: schema, Args: vars})
		zzMapOrder(false, 0)
	default:
		cache := NewPlanCache(PlanCacheOptions{Normalize: true, MaxEntries: 4})
		run := func(t string) *Result {
			pr := cache.Get(&schema, t, "")
			if len(pr.Errors) > 0 || pr.Plan == nil {
				zzFail("plan cache rejected a valid document")
			}
			args := map[string]interface{}{}
			for k, v := range vars {
				args[k] = v
			}
			for k, v := range pr.SynthArgs {
				args[k] = v
			}
			return ExecutePlan(pr.Plan, ExecuteParams{Schema: schema, Args: args})
		}
		run(rtext)
		events = nil
		*w = zzWorld{hook: w.hook, useIsTypeOf: w.useIsTypeOf, runtimeN: w.runtimeN}
		r = run(text)
	}
	zzAssert(len(r.Errors) == 0, "unexpected errors")
	// every deferred value, at whatever depth, has been forced: the response is
	// the plain data tree
	zzAssert(zzDeepEqual(r.Data, want), "mutation response differs from the execution algorithm's (a deferred value was left unforced?)")
	// Document positions of every occurrence of each top-level key (fragments
	// expanded in place). "The order they appear in the document" can be read
	// for a merged key as the place of its first occurrence or as the place of
	// its first occurrence that is included in this request; key A must finish
	// before key B starts whenever A comes before B under BOTH readings (the
	// check takes no side where they differ).
	var flat []string
	var incl []bool
	zzFlattenIncl(&zzRef{w: w, vars: vars}, zzOpOf(doc).SelectionSet, zzFragsOf(doc), &flat, &incl, true, 0)
	firstAll, firstIncl := map[string]int{}, map[string]int{}
	for i, k := range flat {
		if _, ok := firstAll[k]; !ok {
			firstAll[k] = i
		}
		if _, ok := firstIncl[k]; !ok && incl[i] {
			firstIncl[k] = i
		}
	}
	for i := 0; i < len(events); i++ {
		for j := i + 1; j < len(events); j++ {
			a, b := events[i], events[j]
			if a != b {
				zzAssert(!(firstAll[b] < firstAll[a] && firstIncl[b] < firstIncl[a]), "work of a later top-level mutation field ran before an earlier field finished")
			}
		}
	}
	_ = order
	zzCover("end")
}

func zzTopKey(path string) string {
	// path = /key/...
	end := len(path)
	for i := 1; i < len(path); i++ {
		if path[i] == '/' {
			end = i
			break
		}
	}
	if len(path) == 0 {
		return ""
	}
	return path[1:end]
}

// zzFlatten lists the response keys of a selection set in document order,
// expanding fragments in place, ignoring directives.
func zzFlatten(ss *ast.SelectionSet, frags map[string]*ast.FragmentDefinition, out *[]string, depth int) {
	if ss == nil || depth > 5 {
		return
	}
	for _, sel := range ss.Selections {
		switch x := sel.(type) {
		case *ast.Field:
			k := x.Name.Value
			if x.Alias != nil {
				k = x.Alias.Value
			}
			*out = append(*out, k)
		case *ast.InlineFragment:
			zzFlatten(x.SelectionSet, frags, out, depth+1)
		case *ast.FragmentSpread:
			if f := frags[x.Name.Value]; f != nil {
				zzFlatten(f.SelectionSet, frags, out, depth+1)
			}
		}
	}
}

// zzFlattenIncl: like zzFlatten, and tells for every occurrence whether it is
// included under the request's variables (its own directives and those of the
// enclosing fragments).
func zzFlattenIncl(r *zzRef, ss *ast.SelectionSet, frags map[string]*ast.FragmentDefinition, out *[]string, incl *[]bool, on bool, depth int) {
	if ss == nil || depth > 5 {
		return
	}
	for _, sel := range ss.Selections {
		switch x := sel.(type) {
		case *ast.Field:
			k := x.Name.Value
			if x.Alias != nil {
				k = x.Alias.Value
			}
			*out = append(*out, k)
			*incl = append(*incl, on && r.included(x.Directives))
		case *ast.InlineFragment:
			zzFlattenIncl(r, x.SelectionSet, frags, out, incl, on && r.included(x.Directives), depth+1)
		case *ast.FragmentSpread:
			if f := frags[x.Name.Value]; f != nil {
				zzFlattenIncl(r, f.SelectionSet, frags, out, incl, on && r.included(x.Directives), depth+1)
			}
		}
	}
}
