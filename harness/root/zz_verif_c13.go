package graphql

import "github.com/graphql-go/graphql/language/ast"

var zzMutMenu = []string{"m1", "m2", "m3", "x:m1", "mo{x}", "mo{y o{x}}", "...MF", "m2 @skip(if:$v)"}

const zzFragMF = " fragment MF on Mutation{m3 mo{id}}"

// ZZ_C13_serial: top-level mutation fields take effect one after another in
// document order, whatever mix of plain values and deferred thunks resolvers
// return and whatever order hash maps are iterated in.
func ZZ_C13_serial() {
	nsel := zzParam("W", 3)
	body := ""
	for i := 0; i < nsel; i++ {
		body += " " + zzMutMenu[zzChoice("pick"+zzItoa(i), len(zzMutMenu))]
	}
	frags := ""
	if zzContains(body, "...MF") {
		frags = zzFragMF
	}
	head := "mutation M"
	vars := map[string]interface{}{}
	if zzContains(body, "$v") {
		head += "($v:Boolean!)"
		vars["v"] = zzBool("v")
	}
	text := head + "{" + body + " }" + frags
	w := &zzWorld{}
	schema := zzBuildSchema(w)
	doc := zzParse(text)
	if vr := ValidateDocument(&schema, doc, nil); !vr.IsValid {
		zzCover("invalid-pick")
		return
	}
	// expected order of top-level response keys
	want, _ := zzRefExecute(w, doc, "", vars)
	ref := &zzRef{w: w, vars: vars}
	ref.frags = nil
	var order []string // top-level keys in document (collection) order
	{
		r2 := &zzRef{w: w, vars: vars, frags: zzFragsOf(doc)}
		var groups []zzGroup
		r2.collect("Mutation", zzOpOf(doc).SelectionSet, map[string]bool{}, &groups)
		for _, g := range groups {
			order = append(order, g.key)
		}
	}
	// events: every resolver start and every thunk run, tagged by top-level key
	var events []string
	thunkMask := zzChoice("thunks", 1<<uint(len(order))) // which top-level fields (and their children) defer their result
	w.hook = func(parent, field string, p ResolveParams) (interface{}, error, bool) {
		path := zzPathString(p.Info.Path)
		top := zzTopKey(path)
		events = append(events, top)
		idx := -1
		for i, k := range order {
			if k == top {
				idx = i
			}
		}
		if idx >= 0 && thunkMask&(1<<uint(idx)) != 0 {
			spec := zzFieldSpecOf(zzTypeSpecOf(parent), field)
			return func() (interface{}, error) {
				events = append(events, top)
				return w.defaultResolve(parent, spec, p)
			}, nil, true
		}
		return nil, nil, false
	}
	zzMapOrder(true, zzParam("D", 1))
	r := Do(Params{Schema: schema, RequestString: text, VariableValues: vars})
	zzMapOrder(false, 0)
	zzAssert(len(r.Errors) == 0, "unexpected errors")
	// every deferred value, at whatever depth, has been forced: the response is
	// the plain data tree
	zzAssert(zzDeepEqual(r.Data, want), "mutation response differs from the execution algorithm's (a deferred value was left unforced?)")
	// Document positions of every occurrence of each top-level key (skipped
	// occurrences included, fragments expanded in place). Key A must finish
	// before key B starts when all of A's occurrences precede all of B's; keys
	// whose occurrences interleave are not ordered by the property.
	var flat []string
	zzFlatten(zzOpOf(doc).SelectionSet, zzFragsOf(doc), &flat, 0)
	minPos, maxPos := map[string]int{}, map[string]int{}
	for i, k := range flat {
		if _, ok := minPos[k]; !ok {
			minPos[k] = i
		}
		maxPos[k] = i
	}
	for i := 0; i < len(events); i++ {
		for j := i + 1; j < len(events); j++ {
			a, b := events[i], events[j]
			if a != b {
				zzAssert(!(maxPos[b] < minPos[a]), "work of a later top-level mutation field ran before an earlier field finished")
			}
		}
	}
	_ = order
	zzCover("end")
}

func zzTopKey(path string) string {
	// path = /key/...
	end := len(path)
	for i := 1; i < len(path); i++ {
		if path[i] == '/' {
			end = i
			break
		}
	}
	if len(path) == 0 {
		return ""
	}
	return path[1:end]
}

// zzFlatten lists the response keys of a selection set in document order,
// expanding fragments in place, ignoring directives.
func zzFlatten(ss *ast.SelectionSet, frags map[string]*ast.FragmentDefinition, out *[]string, depth int) {
	if ss == nil || depth > 5 {
		return
	}
	for _, sel := range ss.Selections {
		switch x := sel.(type) {
		case *ast.Field:
			k := x.Name.Value
			if x.Alias != nil {
				k = x.Alias.Value
			}
			*out = append(*out, k)
		case *ast.InlineFragment:
			zzFlatten(x.SelectionSet, frags, out, depth+1)
		case *ast.FragmentSpread:
			if f := frags[x.Name.Value]; f != nil {
				zzFlatten(f.SelectionSet, frags, out, depth+1)
			}
		}
	}
}
