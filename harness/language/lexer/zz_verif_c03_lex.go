package lexer

import (
	"github.com/graphql-go/graphql/language/source"
)

// ---------------------------------------------------------------------------
// Reference lexer: the June-2018 lexical grammar over the UTF-8 decoding of the
// bytes, written independently of lexer.go. Offsets are byte offsets; the
// number of runes before each offset is tracked separately so that the
// comparison can accept the unit the repository's tests pin (rune offsets).

type zzTok struct {
	kind       TokenKind
	start, end int // byte offsets
	rstart     int // rune offsets
	rend       int
	value      string
	err        bool
	errPos     int // byte offset of the offending character
}

// zzDecode decodes one UTF-8 sequence like Go's utf8.DecodeRune (invalid -> U+FFFD, width 1).
func zzDecode(b []byte, i int) (rune, int) {
	c := b[i]
	if c < 0x80 {
		return rune(c), 1
	}
	if c >= 0xC2 && c <= 0xDF {
		if i+1 < len(b) && b[i+1] >= 0x80 && b[i+1] <= 0xBF {
			return rune(c&0x1F)<<6 | rune(b[i+1]&0x3F), 2
		}
		return 0xFFFD, 1
	}
	if c >= 0xE0 && c <= 0xEF {
		if i+2 < len(b) {
			lo, hi := byte(0x80), byte(0xBF)
			if c == 0xE0 {
				lo = 0xA0
			}
			if c == 0xED {
				hi = 0x9F
			}
			if b[i+1] >= lo && b[i+1] <= hi && b[i+2] >= 0x80 && b[i+2] <= 0xBF {
				return rune(c&0x0F)<<12 | rune(b[i+1]&0x3F)<<6 | rune(b[i+2]&0x3F), 3
			}
		}
		return 0xFFFD, 1
	}
	if c >= 0xF0 && c <= 0xF4 {
		if i+3 < len(b) {
			lo, hi := byte(0x80), byte(0xBF)
			if c == 0xF0 {
				lo = 0x90
			}
			if c == 0xF4 {
				hi = 0x8F
			}
			if b[i+1] >= lo && b[i+1] <= hi && b[i+2] >= 0x80 && b[i+2] <= 0xBF && b[i+3] >= 0x80 && b[i+3] <= 0xBF {
				return rune(c&0x07)<<18 | rune(b[i+1]&0x3F)<<12 | rune(b[i+2]&0x3F)<<6 | rune(b[i+3]&0x3F), 4
			}
		}
		return 0xFFFD, 1
	}
	return 0xFFFD, 1
}

func zzIsNameStart(c byte) bool {
	return c == '_' || (c >= 'a' && c <= 'z') || (c >= 'A' && c <= 'Z')
}
func zzIsDigit(c byte) bool { return c >= '0' && c <= '9' }

func zzHex(c byte) int {
	switch {
	case c >= '0' && c <= '9':
		return int(c - '0')
	case c >= 'a' && c <= 'f':
		return int(c-'a') + 10
	case c >= 'A' && c <= 'F':
		return int(c-'A') + 10
	}
	return -1
}

func zzEncode(r rune) []byte {
	switch {
	case r < 0x80:
		return []byte{byte(r)}
	case r < 0x800:
		return []byte{0xC0 | byte(r>>6), 0x80 | byte(r&0x3F)}
	case r >= 0xD800 && r <= 0xDFFF:
		return []byte{0xEF, 0xBF, 0xBD}
	default:
		return []byte{0xE0 | byte(r>>12), 0x80 | byte((r>>6)&0x3F), 0x80 | byte(r&0x3F)}
	}
}

// zzRefLex reads one token starting the scan at byte offset from; runes is the
// number of runes before from (unit bookkeeping only).
func zzRefLex(b []byte, from int, runes int) zzTok {
	i, ri := from, runes
	n := len(b)
	fail := func(at int) zzTok { return zzTok{err: true, errPos: at} }
	// Ignored: BOM, white space, line terminators, commas, comments
	for i < n {
		c := b[i]
		if c == '\t' || c == ' ' || c == '\n' || c == '\r' || c == ',' {
			i++
			ri++
			continue
		}
		if c == 0xEF && i+2 < n && b[i+1] == 0xBB && b[i+2] == 0xBF {
			i += 3
			ri++
			continue
		}
		if c == '#' {
			i++
			ri++
			for i < n {
				d := b[i]
				if d == '\n' || d == '\r' {
					break
				}
				if d < 0x20 && d != '\t' {
					return fail(i) // control character: not a SourceCharacter
				}
				_, w := zzDecode(b, i)
				i += w
				ri++
			}
			continue
		}
		break
	}
	if i >= n {
		return zzTok{kind: EOF, start: i, end: i, rstart: ri, rend: ri}
	}
	c := b[i]
	punct := func(k TokenKind, w int) zzTok {
		return zzTok{kind: k, start: i, end: i + w, rstart: ri, rend: ri + w}
	}
	switch c {
	case '!':
		return punct(BANG, 1)
	case '$':
		return punct(DOLLAR, 1)
	case '&':
		return punct(AMP, 1)
	case '(':
		return punct(PAREN_L, 1)
	case ')':
		return punct(PAREN_R, 1)
	case ':':
		return punct(COLON, 1)
	case '=':
		return punct(EQUALS, 1)
	case '@':
		return punct(AT, 1)
	case '[':
		return punct(BRACKET_L, 1)
	case ']':
		return punct(BRACKET_R, 1)
	case '{':
		return punct(BRACE_L, 1)
	case '|':
		return punct(PIPE, 1)
	case '}':
		return punct(BRACE_R, 1)
	case '.':
		if i+2 < n && b[i+1] == '.' && b[i+2] == '.' {
			return punct(SPREAD, 3)
		}
		return fail(i)
	}
	if zzIsNameStart(c) {
		j := i + 1
		for j < n && (zzIsNameStart(b[j]) || zzIsDigit(b[j])) {
			j++
		}
		return zzTok{kind: NAME, start: i, end: j, rstart: ri, rend: ri + (j - i), value: string(b[i:j])}
	}
	if c == '-' || zzIsDigit(c) {
		j := i
		if b[j] == '-' {
			j++
		}
		if j >= n || !zzIsDigit(b[j]) {
			return fail(j)
		}
		if b[j] == '0' {
			j++
			if j < n && zzIsDigit(b[j]) {
				return fail(j)
			}
		} else {
			for j < n && zzIsDigit(b[j]) {
				j++
			}
		}
		kind := INT
		if j < n && b[j] == '.' {
			kind = FLOAT
			j++
			if j >= n || !zzIsDigit(b[j]) {
				return fail(j)
			}
			for j < n && zzIsDigit(b[j]) {
				j++
			}
		}
		if j < n && (b[j] == 'e' || b[j] == 'E') {
			kind = FLOAT
			j++
			if j < n && (b[j] == '+' || b[j] == '-') {
				j++
			}
			if j >= n || !zzIsDigit(b[j]) {
				return fail(j)
			}
			for j < n && zzIsDigit(b[j]) {
				j++
			}
		}
		return zzTok{kind: kind, start: i, end: j, rstart: ri, rend: ri + (j - i), value: string(b[i:j])}
	}
	if c == '"' {
		if i+2 < n && b[i+1] == '"' && b[i+2] == '"' {
			return zzRefBlockString(b, i, ri)
		}
		j, rj := i+1, ri+1
		var val []byte
		for {
			if j >= n {
				return fail(j) // unterminated
			}
			d := b[j]
			if d == '"' {
				return zzTok{kind: STRING, start: i, end: j + 1, rstart: ri, rend: rj + 1, value: string(val)}
			}
			if d == '\n' || d == '\r' {
				return fail(j)
			}
			if d < 0x20 && d != '\t' {
				return fail(j)
			}
			if d == '\\' {
				if j+1 >= n {
					return fail(j + 1)
				}
				e := b[j+1]
				switch e {
				case '"':
					val = append(val, '"')
				case '/':
					val = append(val, '/')
				case '\\':
					val = append(val, '\\')
				case 'b':
					val = append(val, '\b')
				case 'f':
					val = append(val, '\f')
				case 'n':
					val = append(val, '\n')
				case 'r':
					val = append(val, '\r')
				case 't':
					val = append(val, '\t')
				case 'u':
					if j+5 >= n+0 && j+5 > n-1 {
						// fewer than 4 characters follow
						if j+5 > n-1 && j+6 > n {
							return fail(j + 1)
						}
					}
					h0, h1, h2, h3 := zzHex(b[j+2]), zzHex(b[j+3]), zzHex(b[j+4]), zzHex(b[j+5])
					if h0 < 0 || h1 < 0 || h2 < 0 || h3 < 0 {
						return fail(j + 1)
					}
					val = append(val, zzEncode(rune(h0<<12|h1<<8|h2<<4|h3))...)
					j += 4
					rj += 4
				default:
					return fail(j + 1)
				}
				j += 2
				rj += 2
				continue
			}
			_, w := zzDecode(b, j)
			val = append(val, b[j:j+w]...)
			j += w
			rj++
		}
	}
	return fail(i)
}

func zzRefBlockString(b []byte, i, ri int) zzTok {
	n := len(b)
	j, rj := i+3, ri+3
	var raw []byte
	for j < n {
		d := b[j]
		if d == '"' && j+2 < n && b[j+1] == '"' && b[j+2] == '"' {
			return zzTok{kind: BLOCK_STRING, start: i, end: j + 3, rstart: ri, rend: rj + 3, value: zzRefBlockValue(raw)}
		}
		if d < 0x20 && d != '\t' && d != '\n' && d != '\r' {
			return zzTok{err: true, errPos: j}
		}
		if d == '\\' && j+3 < n && b[j+1] == '"' && b[j+2] == '"' && b[j+3] == '"' {
			raw = append(raw, '"', '"', '"')
			j += 4
			rj += 4
			continue
		}
		_, w := zzDecode(b, j)
		raw = append(raw, b[j:j+w]...)
		j += w
		rj++
	}
	return zzTok{err: true, errPos: j}
}

// zzRefBlockValue implements the spec's BlockStringValue().
func zzRefBlockValue(raw []byte) string {
	// split into lines on CRLF | LF | CR
	var lines [][]byte
	st := 0
	for k := 0; k < len(raw); k++ {
		if raw[k] == '\r' {
			lines = append(lines, raw[st:k])
			if k+1 < len(raw) && raw[k+1] == '\n' {
				k++
			}
			st = k + 1
		} else if raw[k] == '\n' {
			lines = append(lines, raw[st:k])
			st = k + 1
		}
	}
	lines = append(lines, raw[st:])
	indentOf := func(l []byte) int {
		k := 0
		for k < len(l) && (l[k] == ' ' || l[k] == '\t') {
			k++
		}
		return k
	}
	common := -1
	for k := 1; k < len(lines); k++ {
		in := indentOf(lines[k])
		if in < len(lines[k]) && (common < 0 || in < common) {
			common = in
		}
	}
	if common > 0 {
		for k := 1; k < len(lines); k++ {
			if len(lines[k]) >= common {
				lines[k] = lines[k][common:]
			} else {
				lines[k] = lines[k][len(lines[k]):]
			}
		}
	}
	for len(lines) > 0 && indentOf(lines[0]) == len(lines[0]) {
		lines = lines[1:]
	}
	for len(lines) > 0 && indentOf(lines[len(lines)-1]) == len(lines[len(lines)-1]) {
		lines = lines[:len(lines)-1]
	}
	var out []byte
	for k, l := range lines {
		if k > 0 {
			out = append(out, '\n')
		}
		out = append(out, l...)
	}
	return string(out)
}

func zzRunesBefore(b []byte, off int) int {
	r := 0
	for i := 0; i < off && i < len(b); {
		_, w := zzDecode(b, i)
		i += w
		r++
	}
	return r
}

func zzAllASCII(b []byte) bool {
	for _, c := range b {
		if c >= 0x80 {
			return false
		}
	}
	return true
}

// ZZ_C03_lex_step: one readToken call from an arbitrary resume offset agrees
// with the reference lexer on every body of up to N bytes.
func ZZ_C03_lex_step() {
	n := zzChoice("n", zzParam("N", 4)+1)
	body := zzBytes("body", n)
	from := zzChoice("from", n+1)
	if _, _, ok := zzCompareTokens(body, from, true); ok {
		zzCover("token")
	}
	zzCover("compared")
}

// zzCompareTokens runs readToken and the reference from offset `from` and asserts agreement.
func zzCompareTokens(body []byte, from int, allowRuneUnit bool) (Token, zzTok, bool) {
	orig := append([]byte(nil), body...)
	src := &source.Source{Body: body}
	tok, err := readToken(src, from)
	ref := zzRefLex(orig, from, from)
	zzAssert(zzBytesEq(src.Body, orig), "source bytes modified by the lexer")
	zzAssert((err != nil) == ref.err, "lexer accepts iff the lexical grammar does")
	if err != nil || ref.err {
		return tok, ref, false
	}
	zzAssert(tok.Kind == ref.kind, "token kind")
	zzAssert(zzStrEq(tok.Value, ref.value), "token value")
	if zzAllASCII(orig) || !allowRuneUnit {
		zzAssert(tok.Start == ref.start && tok.End == ref.end, "token offsets")
	} else {
		zzAssert((tok.Start == ref.start && tok.End == ref.end) || (tok.Start == ref.rstart && tok.End == ref.rend), "token offsets (byte or rune unit)")
		// Lex and the parser resume lexing at token.End, so it has to be the byte
		// offset just after the token. The repository mixes rune and byte units
		// (recorded defect KF-C03-offset-unit) when a multi-byte character precedes.
		zzKnown("KF-C03-offset-unit")
		zzAssert(tok.End == ref.end, "resume offset: token End is not the byte offset after the token")
		zzUnknown("KF-C03-offset-unit")
	}
	return tok, ref, true
}

// ZZ_C03_lex_structured: deep lexer states reached through fixed delimiters
// around K arbitrary bytes: strings, block strings, comments followed by a
// name, numbers.
func ZZ_C03_lex_structured() {
	k := zzChoice("k", zzParam("K", 4)+1)
	mid := zzBytes("mid", k)
	var body []byte
	switch zzChoice("shape", 7) {
	case 0: // "…"
		body = append(append([]byte{'"'}, mid...), '"')
	case 1: // """…"""
		body = append(append([]byte(`"""`), mid...), []byte(`"""`)...)
	case 2: // """\…"""   (room for the \""" escape with fewer free bytes)
		body = append(append([]byte(`"""\`), mid...), []byte(`"""`)...)
	case 3: // #…\nab
		body = append(append([]byte{'#'}, mid...), []byte("\nab")...)
	case 4: // -1…   numbers with free tail
		body = append([]byte("-1"), mid...)
	case 5: // "\uXXXX…"  four arbitrary bytes in the hex positions of a unicode escape
		zzAssume(k <= zzParam("KU", 0))
		body = append(append(append([]byte(`"\u`), zzBytes("hex", 4)...), mid...), '"')
	case 6: // "\…"  arbitrary bytes after a backslash
		zzAssume(k <= zzParam("KE", 2))
		body = append(append([]byte(`"\`), mid...), '"')
	}
	zzCompareTokens(body, 0, true)
	zzCover("compared")
}

// ZZ_C03_lex_stream: lexing a whole body with the Lex closure (each call
// resuming where the previous token ended) yields the reference token stream.
func ZZ_C03_lex_stream() {
	n := zzChoice("n", zzParam("N", 4)+1)
	body := zzBytes("body", n)
	orig := append([]byte(nil), body...)
	if !zzAllASCII(orig) {
		zzKnown("KF-C03-offset-unit")
	}
	lex := Lex(&source.Source{Body: body})
	pos, rpos := 0, 0
	for i := 0; i <= n+1; i++ {
		tok, err := lex(0)
		ref := zzRefLex(orig, pos, rpos)
		zzAssert((err != nil) == ref.err, "stream: error iff reference errors")
		if err != nil || ref.err {
			break
		}
		zzAssert(tok.Kind == ref.kind, "stream: token kind")
		zzAssert(zzStrEq(tok.Value, ref.value), "stream: token value")
		if ref.kind == EOF {
			zzCover("eof")
			break
		}
		pos, rpos = ref.end, ref.rend
	}
	zzCover("compared")
}

var zzBlockLineMenu = []string{"", " ", "  ", "x", " x", "  x", "    y", "\t", " \tz"}

// ZZ_C03_block_lines: block strings of 1..LINES lines, each drawn from a menu
// of blank / indented / plain lines (the shapes BlockStringValue treats
// specially: common indentation, blank first / last / interior lines, blank
// lines shorter than the common indentation), LF or CRLF line ends.
func ZZ_C03_block_lines() {
	n := 1 + zzChoice("lines", zzParam("LINES", 3))
	sep := "\n"
	if zzChoice("crlf", 2) == 1 {
		sep = "\r\n"
	}
	body := `"""`
	for i := 0; i < n; i++ {
		if i > 0 {
			body += sep
		}
		body += zzBlockLineMenu[zzChoice("line"+string(rune('0'+i)), len(zzBlockLineMenu))]
	}
	body += `"""`
	zzCompareTokens([]byte(body), 0, true)
	zzCover("compared")
}

// ZZ_C03_lex_history: what a text lexes to does not depend on what was lexed
// before in the same process: a first text (a string or block string whose
// contents are arbitrary bytes after an escape, valid or not) is lexed and its
// outcome discarded, then a second text of the structured shapes is lexed and
// compared with the reference lexer.
func ZZ_C03_lex_history() {
	k1 := zzChoice("k1", zzParam("K1", 2)+1)
	first := zzBytes("first", k1)
	var body1 []byte
	switch zzChoice("shape1", 3) {
	case 0: // "ab\…"
		body1 = append(append([]byte(`"ab\`), first...), '"')
	case 1: // "ab\n…   (an escape, then arbitrary bytes, no closing quote)
		body1 = append([]byte(`"ab\n`), first...)
	case 2: // """a\…"""
		body1 = append(append([]byte(`"""a\`), first...), []byte(`"""`)...)
	}
	readToken(&source.Source{Body: body1}, 0)
	k := zzChoice("k", zzParam("K", 2)+1)
	mid := zzBytes("mid", k)
	var body []byte
	switch zzChoice("shape", 3) {
	case 0: // "x\ty…"
		body = append(append([]byte(`"x\ty`), mid...), '"')
	case 1: // "…"
		body = append(append([]byte{'"'}, mid...), '"')
	case 2: // """…\"""z"""
		body = append(append([]byte(`"""`), mid...), []byte(`\"""z"""`)...)
	}
	zzCompareTokens(body, 0, true)
	zzCover("compared")
}
