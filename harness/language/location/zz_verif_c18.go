package location

import "github.com/graphql-go/graphql/language/source"

// refLocation is the reference: line = 1 + number of line terminators
// (LF, CR not followed by LF... i.e. CRLF counts once) that end at or before
// position; column = 1 + distance from the end of the last such terminator.
func zzRefLocation(body []byte, pos int) (int, int) {
	line, lineStart := 1, 0
	for i := 0; i < len(body) && i < pos; {
		c := body[i]
		if c == '\r' {
			if i+1 < len(body) && body[i+1] == '\n' {
				if i+1 < pos {
					line++
					lineStart = i + 2
				}
				// position between CR and LF of a CRLF pair: the pair has not ended yet
				i += 2
				continue
			}
			line++
			lineStart = i + 1
			i++
			continue
		}
		if c == '\n' {
			line++
			lineStart = i + 1
		}
		i++
	}
	return line, pos - lineStart + 1
}

// ZZ_C18_kernel: GetLocation agrees with the reference for every body of up to
// N bytes and every position inside it.
func ZZ_C18_kernel() {
	n := zzChoice("n", zzParam("N", 6)+1)
	body := zzBytes("body", n)
	pos := zzInt("pos", 0, n)
	// a position strictly inside a CRLF pair does not start any token or node
	if pos > 0 && pos < n {
		zzAssume(!(body[pos-1] == '\r' && body[pos] == '\n'))
	}
	src := &source.Source{Body: body}
	loc := GetLocation(src, pos)
	rl, rc := zzRefLocation(body, pos)
	zzCover("compared")
	zzAssert(loc.Line == rl, "line")
	zzAssert(loc.Column == rc, "column")
	zzAssert(loc.Line >= 1 && loc.Column >= 1, "one-based")
}
