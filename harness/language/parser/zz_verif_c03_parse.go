package parser

import (
	"github.com/graphql-go/graphql/language/lexer"
	"github.com/graphql-go/graphql/language/source"
)

// ---------------------------------------------------------------------------
// Reference recogniser for the grammar the parser targets (June-2018 executable
// and type-system definitions as its production comments state them, `extend
// type` only, empty `{ }` bodies for type/interface/enum/input as the
// repository's tests require), over the token stream of the real lexer (which
// is checked against its own reference in package lexer).

type zzP struct {
	toks []lexer.Token
	i    int
}

func (p *zzP) kind() lexer.TokenKind { return p.toks[p.i].Kind }
func (p *zzP) val() string           { return p.toks[p.i].Value }
func (p *zzP) isName(v string) bool  { return p.kind() == lexer.NAME && p.val() == v }
func (p *zzP) eat(k lexer.TokenKind) bool {
	if p.kind() == k {
		p.i++
		return true
	}
	return false
}
func (p *zzP) eatName(v string) bool {
	if p.isName(v) {
		p.i++
		return true
	}
	return false
}
func (p *zzP) anyName() bool { return p.eat(lexer.NAME) }
func (p *zzP) isString() bool {
	return p.kind() == lexer.STRING || p.kind() == lexer.BLOCK_STRING
}

func (p *zzP) document() bool {
	n := 0
	for p.kind() != lexer.EOF {
		if !p.definition() {
			return false
		}
		n++
	}
	return n > 0
}

func (p *zzP) definition() bool {
	if p.kind() == lexer.BRACE_L {
		return p.selectionSet()
	}
	// optional description, then a keyword
	j := p.i
	if p.isString() {
		j++
	}
	if p.toks[j].Kind != lexer.NAME {
		return false
	}
	hasDesc := j != p.i
	switch p.toks[j].Value {
	case "query", "mutation", "subscription":
		if hasDesc {
			return false
		}
		return p.operation()
	case "fragment":
		if hasDesc {
			return false
		}
		return p.fragmentDefinition()
	case "schema":
		if hasDesc {
			return false
		}
		p.i++
		return p.directives(true) && p.eat(lexer.BRACE_L) && p.plus(func() bool {
			if !(p.eatName("query") || p.eatName("mutation") || p.eatName("subscription")) {
				return false
			}
			return p.eat(lexer.COLON) && p.anyName()
		}, lexer.BRACE_R)
	case "scalar":
		p.i = j + 1
		return p.anyName() && p.directives(true)
	case "type":
		p.i = j + 1
		return p.objectTypeRest()
	case "interface":
		p.i = j + 1
		return p.anyName() && p.directives(true) && p.eat(lexer.BRACE_L) && p.star(p.fieldDefinition, lexer.BRACE_R)
	case "union":
		p.i = j + 1
		if !(p.anyName() && p.directives(true) && p.eat(lexer.EQUALS)) {
			return false
		}
		// no leading `|`: the parser's production comment (UnionMembers) does not have it
		if !p.anyName() {
			return false
		}
		for p.eat(lexer.PIPE) {
			if !p.anyName() {
				return false
			}
		}
		return true
	case "enum":
		p.i = j + 1
		return p.anyName() && p.directives(true) && p.eat(lexer.BRACE_L) && p.star(func() bool {
			if p.isString() {
				p.i++
			}
			return p.anyName() && p.directives(true)
		}, lexer.BRACE_R)
	case "input":
		p.i = j + 1
		return p.anyName() && p.directives(true) && p.eat(lexer.BRACE_L) && p.star(p.inputValueDefinition, lexer.BRACE_R)
	case "extend":
		if hasDesc {
			return false
		}
		p.i++
		if p.isString() {
			p.i++ // the extended definition is an ObjectTypeDefinition, which may carry a description
		}
		return p.eatName("type") && p.objectTypeRest()
	case "directive":
		p.i = j + 1
		if !(p.eat(lexer.AT) && p.anyName()) {
			return false
		}
		if p.kind() == lexer.PAREN_L {
			p.i++
			if !p.plus(p.inputValueDefinition, lexer.PAREN_R) {
				return false
			}
		}
		if !p.eatName("on") {
			return false
		}
		if !p.anyName() {
			return false
		}
		for p.eat(lexer.PIPE) {
			if !p.anyName() {
				return false
			}
		}
		return true
	}
	return false
}

func (p *zzP) objectTypeRest() bool {
	if !p.anyName() {
		return false
	}
	if p.eatName("implements") {
		p.eat(lexer.AMP)
		if !p.anyName() {
			return false
		}
		for p.eat(lexer.AMP) {
			if !p.anyName() {
				return false
			}
		}
	}
	return p.directives(true) && p.eat(lexer.BRACE_L) && p.star(p.fieldDefinition, lexer.BRACE_R)
}

// plus: one or more items then the closing token; star: zero or more.
func (p *zzP) plus(item func() bool, closeK lexer.TokenKind) bool {
	n := 0
	for p.kind() != closeK {
		if p.kind() == lexer.EOF || !item() {
			return false
		}
		n++
	}
	p.i++
	return n > 0
}
func (p *zzP) star(item func() bool, closeK lexer.TokenKind) bool {
	for p.kind() != closeK {
		if p.kind() == lexer.EOF || !item() {
			return false
		}
	}
	p.i++
	return true
}

func (p *zzP) fieldDefinition() bool {
	if p.isString() {
		p.i++
	}
	if !p.anyName() {
		return false
	}
	if p.kind() == lexer.PAREN_L {
		p.i++
		if !p.plus(p.inputValueDefinition, lexer.PAREN_R) {
			return false
		}
	}
	return p.eat(lexer.COLON) && p.typeRef() && p.directives(true)
}

func (p *zzP) inputValueDefinition() bool {
	if p.isString() {
		p.i++
	}
	if !(p.anyName() && p.eat(lexer.COLON) && p.typeRef()) {
		return false
	}
	if p.eat(lexer.EQUALS) {
		if !p.value(true) {
			return false
		}
	}
	return p.directives(true)
}

func (p *zzP) typeRef() bool {
	if p.eat(lexer.BRACKET_L) {
		if !(p.typeRef() && p.eat(lexer.BRACKET_R)) {
			return false
		}
	} else if !p.anyName() {
		return false
	}
	p.eat(lexer.BANG)
	return true
}

func (p *zzP) operation() bool {
	p.i++ // operation type
	if p.kind() == lexer.NAME {
		p.i++
	}
	if p.kind() == lexer.PAREN_L {
		p.i++
		if !p.plus(func() bool {
			if !(p.eat(lexer.DOLLAR) && p.anyName() && p.eat(lexer.COLON) && p.typeRef()) {
				return false
			}
			if p.eat(lexer.EQUALS) {
				return p.value(true)
			}
			return true
		}, lexer.PAREN_R) {
			return false
		}
	}
	return p.directives(false) && p.selectionSet()
}

func (p *zzP) fragmentDefinition() bool {
	p.i++
	if p.kind() != lexer.NAME || p.val() == "on" {
		return false
	}
	p.i++
	return p.eatName("on") && p.anyName() && p.directives(false) && p.selectionSet()
}

func (p *zzP) selectionSet() bool {
	return p.eat(lexer.BRACE_L) && p.plus(p.selection, lexer.BRACE_R)
}

func (p *zzP) selection() bool {
	if p.eat(lexer.SPREAD) {
		if p.kind() == lexer.NAME && p.val() != "on" {
			p.i++
			return p.directives(false)
		}
		if p.eatName("on") {
			if !p.anyName() {
				return false
			}
		}
		return p.directives(false) && p.selectionSet()
	}
	if !p.anyName() {
		return false
	}
	if p.eat(lexer.COLON) {
		if !p.anyName() {
			return false
		}
	}
	if p.kind() == lexer.PAREN_L {
		if !p.arguments(false) {
			return false
		}
	}
	if !p.directives(false) {
		return false
	}
	if p.kind() == lexer.BRACE_L {
		return p.selectionSet()
	}
	return true
}

func (p *zzP) arguments(isConst bool) bool {
	p.i++
	return p.plus(func() bool {
		return p.anyName() && p.eat(lexer.COLON) && p.value(isConst)
	}, lexer.PAREN_R)
}

func (p *zzP) directives(isConst bool) bool {
	for p.eat(lexer.AT) {
		if !p.anyName() {
			return false
		}
		if p.kind() == lexer.PAREN_L {
			if !p.arguments(isConst) {
				return false
			}
		}
	}
	return true
}

func (p *zzP) value(isConst bool) bool {
	switch p.kind() {
	case lexer.BRACKET_L:
		p.i++
		return p.star(func() bool { return p.value(isConst) }, lexer.BRACKET_R)
	case lexer.BRACE_L:
		p.i++
		return p.star(func() bool { return p.anyName() && p.eat(lexer.COLON) && p.value(isConst) }, lexer.BRACE_R)
	case lexer.INT, lexer.FLOAT, lexer.STRING, lexer.BLOCK_STRING:
		p.i++
		return true
	case lexer.NAME:
		if p.val() == "null" {
			return false // the edition the parser implements has no null literal
		}
		p.i++
		return true
	case lexer.DOLLAR:
		if isConst {
			return false
		}
		p.i++
		return p.anyName()
	}
	return false
}

// zzRefAccepts tokenises with the real lexer and runs the recogniser; lexOK is
// false when the text has a lexical error (then the parser must reject too).
func zzRefAccepts(text string) (accepts bool, lexOK bool) {
	lex := lexer.Lex(&source.Source{Body: []byte(text)})
	var toks []lexer.Token
	for {
		t, err := lex(0)
		if err != nil {
			return false, false
		}
		toks = append(toks, t)
		if t.Kind == lexer.EOF {
			break
		}
		if len(toks) > 400 {
			return false, false
		}
	}
	p := &zzP{toks: toks}
	return p.document() && p.kind() == lexer.EOF, true
}

var zzTokAlphabet = []string{
	"{", "}", "(", ")", "[", "]", ":", "=", "@", "!", "$", "|", "&", "...",
	"query", "mutation", "subscription", "fragment", "on", "type", "a", "T", "true", "null",
	"1", "1.5", "\"s\"", "\"on\"", "\"\"\"b\"\"\"",
	"schema", "scalar", "interface", "union", "enum", "input", "extend", "directive", "implements", "\"implements\"", "\"type\"",
}

var zzParseSeeds = []string{
	"query Q ( $v : [ Int ! ] = [ 1 ] ) @d ( a : 1 ) { x : f ( a : { k : $v } ) @e { g } ... F ... on T { h } ... @i { j } }",
	"fragment F on T @d { a }",
	"mutation { m }",
	"\"d\" type T implements I & J @d ( a : 1 ) { \"f\" f ( \"a\" a : Int = 1 @x ) : [ T ! ] ! @y }",
	"interface I @d { f : Int }",
	"union U @d = A | B",
	"scalar S @d",
	"enum E @d { \"v\" A @x B }",
	"input In @d { f : Int = 1 @x }",
	"extend type T @d { f : Int }",
	"schema @d { query : Q mutation : M }",
	"directive @d ( a : Int = 1 ) on FIELD | QUERY",
	"{ a ( x : [ 1 , \"s\" , true , E , 1.5 , \"\"\"b\"\"\" ] ) }",
	"type T { }",
}

func zzCheckParse(text string) {
	want, _ := zzRefAccepts(text)
	_, err := Parse(ParseParams{Source: &source.Source{Body: []byte(text), Name: "zz"}})
	got := err == nil
	if got != want {
		if got {
			zzFail("parser accepts a text outside the grammar: " + text)
		}
		zzFail("parser rejects a text of the grammar: " + text)
	}
}

// ZZ_C03_parse_tokens: every sequence of K tokens from the 40-token alphabet
// (punctuators, keywords, names, numbers, strings spelling keywords).
func ZZ_C03_parse_tokens() {
	k := zzParam("K", 3)
	text := ""
	for i := 0; i < k; i++ {
		t := zzTokAlphabet[zzChoice("t"+string(rune('0'+i)), len(zzTokAlphabet))]
		if i > 0 {
			text += " "
		}
		text += t
	}
	zzCheckParse(text)
	zzCover("end")
}

func zzSplitTokens(s string) []string {
	var out []string
	cur := ""
	for i := 0; i < len(s); i++ {
		if s[i] == ' ' {
			if cur != "" {
				out = append(out, cur)
				cur = ""
			}
			continue
		}
		cur += string(s[i])
	}
	if cur != "" {
		out = append(out, cur)
	}
	return out
}

// ZZ_C03_parse_seeds: every seed document with one token replaced by, removed,
// or preceded by each token of the alphabet.
func ZZ_C03_parse_seeds() {
	seed := zzParseSeeds[zzChoice("seed", len(zzParseSeeds))]
	toks := zzSplitTokens(seed)
	pos := zzChoice("pos", len(toks))
	op := zzChoice("op", 3) // 0 replace, 1 delete, 2 insert before
	var sub string
	if op != 1 {
		sub = zzTokAlphabet[zzChoice("tok", len(zzTokAlphabet))]
	}
	text := ""
	for i, t := range toks {
		if i == pos {
			switch op {
			case 0:
				t = sub
			case 1:
				continue
			case 2:
				t = sub + " " + t
			}
		}
		text += t + " "
	}
	zzCheckParse(text)
	zzCover("end")
}

// ZZ_C03_parse_value: parser.ParseValue accepts a text iff the whole of it is
// one (non-constant) Value of the grammar: every sequence of 1..K tokens.
func ZZ_C03_parse_value() {
	k := 1 + zzChoice("k", zzParam("K", 3))
	text := ""
	for i := 0; i < k; i++ {
		t := zzTokAlphabet[zzChoice("t"+string(rune('0'+i)), len(zzTokAlphabet))]
		if i > 0 {
			text += " "
		}
		text += t
	}
	lex := lexer.Lex(&source.Source{Body: []byte(text)})
	var toks []lexer.Token
	for {
		t, err := lex(0)
		zzAssert(err == nil, "alphabet tokens lex")
		toks = append(toks, t)
		if t.Kind == lexer.EOF {
			break
		}
	}
	p := &zzP{toks: toks}
	want := p.value(false) && p.kind() == lexer.EOF
	_, err := ParseValue(ParseParams{Source: &source.Source{Body: []byte(text), Name: "zz"}})
	if (err == nil) != want {
		if err == nil {
			zzFail("ParseValue accepts a text that is not one value")
		}
		zzFail("ParseValue rejects a value of the grammar")
	}
	zzCover("end")
}
