package parser

import (
	"github.com/graphql-go/graphql/gqlerrors"
	"github.com/graphql-go/graphql/language/source"
)

// Syntax-error locations. The request is "{" + N characters drawn from an
// alphabet that exercises line counting (LF, CR, CRLF), ignored characters,
// comments, names and a two-byte character + "?". The first position at which
// the text stops being the beginning of a valid document is known by
// construction: the first character outside a comment that is neither ignored
// nor part of a name (the two-byte character or the final "?"), or the end of
// the text when the "?" is swallowed by a comment.

var zzC18Alphabet = []string{" ", "\n", "\r", ",", "a", "#", "é"}

// zzLineCol: 1-based line and column (in bytes and in characters) of byte offset
// off: every line terminator (CRLF is one) that starts before off begins a new line.
func zzLineCol(b []byte, off int) (line, colBytes, colChars int) {
	line = 1
	lineStart := 0
	for i := 0; i < off && i < len(b); i++ {
		if b[i] == '\r' && i+1 < len(b) && b[i+1] == '\n' {
			line++
			lineStart = i + 2
			i++
			continue
		}
		if b[i] == '\n' || b[i] == '\r' {
			line++
			lineStart = i + 1
		}
	}
	colBytes = off + 1 - lineStart
	colChars = 1
	for i := lineStart; i < off; i++ {
		if b[i] < 0x80 || b[i] >= 0xC0 {
			colChars++
		}
	}
	if lineStart > off {
		colChars = colBytes
	}
	return
}

func ZZ_C18_syntax() {
	n := zzParam("N", 5)
	body := "{"
	for i := 0; i < n; i++ {
		body += zzC18Alphabet[zzChoice("c"+string(rune('0'+i)), len(zzC18Alphabet))]
	}
	body += "?"
	b := []byte(body)
	// the offending byte offset
	off := len(b)
	inComment := false
	multiByteBefore := false
	for i := 1; i < len(b); i++ {
		c := b[i]
		if inComment {
			if c == '\n' || c == '\r' {
				inComment = false
			}
			if c >= 0x80 {
				multiByteBefore = true
			}
			continue
		}
		if c == '#' {
			inComment = true
			continue
		}
		if c == ' ' || c == '\n' || c == '\r' || c == ',' || c == 'a' {
			continue
		}
		off = i
		break
	}
	// expected 1-based line and column (in bytes and in characters) of that offset
	line, colBytes, colChars := zzLineCol(b, off)
	_, err := Parse(ParseParams{Source: &source.Source{Body: b, Name: "zz"}})
	zzAssert(err != nil, "a document ending in ? parsed")
	ge, ok := err.(*gqlerrors.Error)
	zzAssert(ok && len(ge.Locations) == 1, "syntax error without exactly one location")
	l := ge.Locations[0]
	if multiByteBefore {
		// recorded defect KF-C18-rune-offset: the lexer counts the position in
		// characters and the location is computed as if it were a byte offset,
		// i.e. short by the number of continuation bytes before it. Only that
		// exact outcome is excused.
		cont := 0
		for i := 0; i < off; i++ {
			if b[i] >= 0x80 && b[i] < 0xC0 {
				cont++
			}
		}
		// (lexing resumes at byte offsets, so only the multi-byte characters since
		// the last resume point are lost: the position is short by 1..cont bytes)
		if l.Line != line || (l.Column != colBytes && l.Column != colChars) {
			// When a name follows the multi-byte character, KF-C03-offset-unit takes
			// over: lexing resumes inside that name or the character (token offsets
			// are character indexes used as byte offsets), and the error may be raised
			// anywhere before the offending lexeme.
			nameAfter, seenMB, inC := false, false, false
			for i := 1; i < off; i++ {
				if b[i] >= 0x80 {
					seenMB = true
				}
				if inC {
					if b[i] == '\n' || b[i] == '\r' {
						inC = false
					}
					continue
				}
				if b[i] == '#' {
					inC = true
				}
				if b[i] == 'a' && seenMB {
					nameAfter = true
				}
			}
			if nameAfter {
				ll, lc, _ := zzLineCol(b, off)
				if l.Line < ll || (l.Line == ll && l.Column < lc) {
					zzKnown("KF-C18-rune-offset")
					zzFail("syntax error raised before the offending lexeme after lexing resumed inside a token")
				}
			}
			for j := 1; j <= cont; j++ {
				dl, dc, _ := zzLineCol(b, off-j)
				if l.Line == dl && l.Column == dc {
					zzKnown("KF-C18-rune-offset")
					zzFail("syntax error located at the character index read as a byte offset")
				}
			}
		}
	}
	zzAssert(l.Line == line, "syntax error line")
	zzAssert(l.Column == colBytes || l.Column == colChars, "syntax error column")
	zzCover("end")
}
