package parser

import (
	"github.com/graphql-go/graphql/language/ast"
	"github.com/graphql-go/graphql/language/lexer"
	"github.com/graphql-go/graphql/language/source"
)

// AST shape. For a text the recogniser accepts, zzB builds — directly from the
// token stream and the grammar — the tree the grammar defines, written as an
// S-expression `(Kind@start children…)` where start is the offset of the
// node's first token; zzDump writes the parser's AST in the same form. They
// must be equal: every node present with the right kind, value, children in
// source order and start position.

type zzB struct {
	toks []lexer.Token
	i    int
}

func zzI(n int) string {
	if n == 0 {
		return "0"
	}
	neg := n < 0
	if neg {
		n = -n
	}
	s := ""
	for n > 0 {
		s = string(rune('0'+n%10)) + s
		n /= 10
	}
	if neg {
		s = "-" + s
	}
	return s
}

func zzN(kind string, start int, children ...string) string {
	s := "(" + kind + "@" + zzI(start)
	for _, c := range children {
		if c != "" {
			s += " " + c
		}
	}
	return s + ")"
}

func (b *zzB) kind() lexer.TokenKind { return b.toks[b.i].Kind }
func (b *zzB) val() string           { return b.toks[b.i].Value }
func (b *zzB) start() int            { return b.toks[b.i].Start }
func (b *zzB) skip()                 { b.i++ }
func (b *zzB) isName(v string) bool  { return b.kind() == lexer.NAME && b.val() == v }
func (b *zzB) isString() bool {
	return b.kind() == lexer.STRING || b.kind() == lexer.BLOCK_STRING
}

func (b *zzB) name() string {
	s := zzN("Name", b.start(), b.val())
	b.i++
	return s
}

func (b *zzB) named() string {
	st := b.start()
	return zzN("Named", st, b.name())
}

func (b *zzB) desc() string {
	if b.isString() {
		s := zzN("Desc", b.start(), b.val())
		b.i++
		return s
	}
	return ""
}

func (b *zzB) document() string {
	st := b.start()
	var defs []string
	for b.kind() != lexer.EOF {
		defs = append(defs, b.definition())
	}
	return zzN("Document", st, defs...)
}

func (b *zzB) definition() string {
	st := b.start()
	if b.kind() == lexer.BRACE_L {
		return zzN("Op", st, "query", b.selectionSet())
	}
	if b.isName("query") || b.isName("mutation") || b.isName("subscription") {
		return b.operation()
	}
	if b.isName("fragment") {
		b.skip()
		n := b.name()
		b.skip() // on
		return zzN("FragDef", st, n, b.named(), b.directives(), b.selectionSet())
	}
	if b.isName("schema") {
		b.skip()
		d := b.directives()
		b.skip() // {
		var ops []string
		for b.kind() != lexer.BRACE_R {
			os := b.start()
			op := b.val()
			b.skip()
			b.skip() // :
			ops = append(ops, zzN("OpType", os, op, b.named()))
		}
		b.skip()
		return zzN("Schema", st, append([]string{d}, ops...)...)
	}
	if b.isName("extend") {
		b.skip()
		return zzN("Extend", st, b.typeSystemDefinition())
	}
	return b.typeSystemDefinition()
}

func (b *zzB) typeSystemDefinition() string {
	st := b.start()
	d := b.desc()
	kw := b.val()
	b.skip()
	switch kw {
	case "scalar":
		return zzN("Scalar", st, d, b.name(), b.directives())
	case "type":
		n := b.name()
		impl := ""
		if b.isName("implements") {
			is := b.start()
			b.skip()
			if b.kind() == lexer.AMP {
				b.skip()
			}
			items := []string{b.named()}
			for b.kind() == lexer.AMP {
				b.skip()
				items = append(items, b.named())
			}
			_ = is
			impl = "(Impl"
			for _, it := range items {
				impl += " " + it
			}
			impl += ")"
		}
		dirs := b.directives()
		return zzN("ObjectDef", st, d, n, impl, dirs, b.braced(b.fieldDefinition))
	case "interface":
		return zzN("Interface", st, d, b.name(), b.directives(), b.braced(b.fieldDefinition))
	case "union":
		n := b.name()
		dirs := b.directives()
		b.skip() // =
		types := b.named()
		for b.kind() == lexer.PIPE {
			b.skip()
			types += " " + b.named()
		}
		return zzN("Union", st, d, n, dirs, types)
	case "enum":
		return zzN("EnumDef", st, d, b.name(), b.directives(), b.braced(func() string {
			vs := b.start()
			vd := b.desc()
			return zzN("EnumVal", vs, vd, b.name(), b.directives())
		}))
	case "input":
		return zzN("InputDef", st, d, b.name(), b.directives(), b.braced(b.inputValueDefinition))
	case "directive":
		b.skip() // @
		n := b.name()
		args := ""
		if b.kind() == lexer.PAREN_L {
			args = b.parened(b.inputValueDefinition)
		}
		b.skip() // on
		locs := b.name()
		for b.kind() == lexer.PIPE {
			b.skip()
			locs += " " + b.name()
		}
		return zzN("DirectiveDef", st, d, n, args, locs)
	}
	return "(?" + kw + ")"
}

// braced / parened: `{ item* }` / `( item+ )`, items separated by blanks.
func (b *zzB) braced(item func() string) string {
	b.skip()
	s := ""
	for b.kind() != lexer.BRACE_R {
		if s != "" {
			s += " "
		}
		s += item()
	}
	b.skip()
	return s
}

func (b *zzB) parened(item func() string) string {
	b.skip()
	s := ""
	for b.kind() != lexer.PAREN_R {
		if s != "" {
			s += " "
		}
		s += item()
	}
	b.skip()
	return s
}

func (b *zzB) fieldDefinition() string {
	st := b.start()
	d := b.desc()
	n := b.name()
	args := ""
	if b.kind() == lexer.PAREN_L {
		args = b.parened(b.inputValueDefinition)
	}
	b.skip() // :
	return zzN("FieldDef", st, d, n, args, b.typeRef(), b.directives())
}

func (b *zzB) inputValueDefinition() string {
	st := b.start()
	d := b.desc()
	n := b.name()
	b.skip() // :
	t := b.typeRef()
	def := ""
	if b.kind() == lexer.EQUALS {
		b.skip()
		def = b.value()
	}
	return zzN("IVD", st, d, n, t, def, b.directives())
}

func (b *zzB) typeRef() string {
	st := b.start()
	var t string
	if b.kind() == lexer.BRACKET_L {
		b.skip()
		inner := b.typeRef()
		b.skip() // ]
		t = zzN("ListT", st, inner)
	} else {
		t = b.named()
	}
	if b.kind() == lexer.BANG {
		b.skip()
		return zzN("NonNull", st, t)
	}
	return t
}

func (b *zzB) operation() string {
	st := b.start()
	op := b.val()
	b.skip()
	n := ""
	if b.kind() == lexer.NAME {
		n = b.name()
	}
	vars := ""
	if b.kind() == lexer.PAREN_L {
		vars = b.parened(func() string {
			vs := b.start()
			b.skip() // $
			v := zzN("Var", vs, b.name())
			b.skip() // :
			t := b.typeRef()
			def := ""
			if b.kind() == lexer.EQUALS {
				b.skip()
				def = b.value()
			}
			return zzN("VarDef", vs, v, t, def)
		})
	}
	return zzN("Op", st, op, n, vars, b.directives(), b.selectionSet())
}

func (b *zzB) selectionSet() string {
	st := b.start()
	return zzN("SS", st, b.braced(b.selection))
}

func (b *zzB) selection() string {
	st := b.start()
	if b.kind() == lexer.SPREAD {
		b.skip()
		if b.kind() == lexer.NAME && b.val() != "on" {
			return zzN("Spread", st, b.name(), b.directives())
		}
		on := ""
		if b.isName("on") {
			b.skip()
			on = b.named()
		}
		return zzN("Inline", st, on, b.directives(), b.selectionSet())
	}
	first := b.name()
	alias, n := "", first
	if b.kind() == lexer.COLON {
		b.skip()
		alias = "(Alias " + first + ")"
		n = b.name()
	}
	args := ""
	if b.kind() == lexer.PAREN_L {
		args = b.arguments()
	}
	dirs := b.directives()
	ss := ""
	if b.kind() == lexer.BRACE_L {
		ss = b.selectionSet()
	}
	return zzN("Field", st, alias, n, args, dirs, ss)
}

func (b *zzB) arguments() string {
	return b.parened(func() string {
		st := b.start()
		n := b.name()
		b.skip() // :
		return zzN("Arg", st, n, b.value())
	})
}

func (b *zzB) directives() string {
	s := ""
	for b.kind() == lexer.AT {
		st := b.start()
		b.skip()
		n := b.name()
		args := ""
		if b.kind() == lexer.PAREN_L {
			args = b.arguments()
		}
		if s != "" {
			s += " "
		}
		s += zzN("Dir", st, n, args)
	}
	return s
}

func (b *zzB) value() string {
	st := b.start()
	switch b.kind() {
	case lexer.BRACKET_L:
		b.skip()
		s := ""
		for b.kind() != lexer.BRACKET_R {
			if s != "" {
				s += " "
			}
			s += b.value()
		}
		b.skip()
		return zzN("List", st, s)
	case lexer.BRACE_L:
		return zzN("Object", st, b.braced(func() string {
			fs := b.start()
			n := b.name()
			b.skip() // :
			return zzN("OF", fs, n, b.value())
		}))
	case lexer.INT:
		v := b.val()
		b.skip()
		return zzN("Int", st, v)
	case lexer.FLOAT:
		v := b.val()
		b.skip()
		return zzN("Float", st, v)
	case lexer.STRING, lexer.BLOCK_STRING:
		v := b.val()
		b.skip()
		return zzN("String", st, v)
	case lexer.DOLLAR:
		b.skip()
		return zzN("Var", st, b.name())
	case lexer.NAME:
		v := b.val()
		b.skip()
		if v == "true" || v == "false" {
			return zzN("Bool", st, v)
		}
		return zzN("Enum", st, v)
	}
	return "(?value)"
}

// ---- the parser's AST in the same form

func zzLocStart(l *ast.Location) int {
	if l == nil {
		return -1
	}
	return l.Start
}

func zzDumpName(n *ast.Name) string {
	if n == nil {
		return ""
	}
	return zzN("Name", zzLocStart(n.Loc), n.Value)
}

func zzDumpNamed(n *ast.Named) string {
	if n == nil {
		return ""
	}
	return zzN("Named", zzLocStart(n.Loc), zzDumpName(n.Name))
}

func zzDumpDesc(d *ast.StringValue) string {
	if d == nil {
		return ""
	}
	return zzN("Desc", zzLocStart(d.Loc), d.Value)
}

func zzJoin(items []string) string {
	s := ""
	for _, it := range items {
		if it == "" {
			continue
		}
		if s != "" {
			s += " "
		}
		s += it
	}
	return s
}

func zzDumpDirs(ds []*ast.Directive) string {
	var out []string
	for _, d := range ds {
		out = append(out, zzN("Dir", zzLocStart(d.Loc), zzDumpName(d.Name), zzDumpArgs(d.Arguments)))
	}
	return zzJoin(out)
}

func zzDumpArgs(as []*ast.Argument) string {
	var out []string
	for _, a := range as {
		out = append(out, zzN("Arg", zzLocStart(a.Loc), zzDumpName(a.Name), zzDumpValue(a.Value)))
	}
	return zzJoin(out)
}

func zzDumpValue(v ast.Value) string {
	switch x := v.(type) {
	case nil:
		return ""
	case *ast.Variable:
		return zzN("Var", zzLocStart(x.Loc), zzDumpName(x.Name))
	case *ast.IntValue:
		return zzN("Int", zzLocStart(x.Loc), x.Value)
	case *ast.FloatValue:
		return zzN("Float", zzLocStart(x.Loc), x.Value)
	case *ast.StringValue:
		return zzN("String", zzLocStart(x.Loc), x.Value)
	case *ast.BooleanValue:
		if x.Value {
			return zzN("Bool", zzLocStart(x.Loc), "true")
		}
		return zzN("Bool", zzLocStart(x.Loc), "false")
	case *ast.EnumValue:
		return zzN("Enum", zzLocStart(x.Loc), x.Value)
	case *ast.ListValue:
		var out []string
		for _, e := range x.Values {
			out = append(out, zzDumpValue(e))
		}
		return zzN("List", zzLocStart(x.Loc), zzJoin(out))
	case *ast.ObjectValue:
		var out []string
		for _, f := range x.Fields {
			out = append(out, zzN("OF", zzLocStart(f.Loc), zzDumpName(f.Name), zzDumpValue(f.Value)))
		}
		return zzN("Object", zzLocStart(x.Loc), zzJoin(out))
	}
	return "(?value)"
}

func zzDumpType(t ast.Type) string {
	switch x := t.(type) {
	case nil:
		return ""
	case *ast.Named:
		return zzDumpNamed(x)
	case *ast.List:
		return zzN("ListT", zzLocStart(x.Loc), zzDumpType(x.Type))
	case *ast.NonNull:
		return zzN("NonNull", zzLocStart(x.Loc), zzDumpType(x.Type))
	}
	return "(?type)"
}

func zzDumpSS(ss *ast.SelectionSet) string {
	if ss == nil {
		return ""
	}
	var out []string
	for _, sel := range ss.Selections {
		switch x := sel.(type) {
		case *ast.Field:
			alias := ""
			if x.Alias != nil {
				alias = "(Alias " + zzDumpName(x.Alias) + ")"
			}
			out = append(out, zzN("Field", zzLocStart(x.Loc), alias, zzDumpName(x.Name), zzDumpArgs(x.Arguments), zzDumpDirs(x.Directives), zzDumpSS(x.SelectionSet)))
		case *ast.FragmentSpread:
			out = append(out, zzN("Spread", zzLocStart(x.Loc), zzDumpName(x.Name), zzDumpDirs(x.Directives)))
		case *ast.InlineFragment:
			out = append(out, zzN("Inline", zzLocStart(x.Loc), zzDumpNamed(x.TypeCondition), zzDumpDirs(x.Directives), zzDumpSS(x.SelectionSet)))
		default:
			out = append(out, "(?selection)")
		}
	}
	return zzN("SS", zzLocStart(ss.Loc), zzJoin(out))
}

func zzDumpIVDs(ivs []*ast.InputValueDefinition) string {
	var out []string
	for _, x := range ivs {
		out = append(out, zzN("IVD", zzLocStart(x.Loc), zzDumpDesc(x.Description), zzDumpName(x.Name), zzDumpType(x.Type), zzDumpValue(x.DefaultValue), zzDumpDirs(x.Directives)))
	}
	return zzJoin(out)
}

func zzDumpFieldDefs(fs []*ast.FieldDefinition) string {
	var out []string
	for _, x := range fs {
		out = append(out, zzN("FieldDef", zzLocStart(x.Loc), zzDumpDesc(x.Description), zzDumpName(x.Name), zzDumpIVDs(x.Arguments), zzDumpType(x.Type), zzDumpDirs(x.Directives)))
	}
	return zzJoin(out)
}

func zzDumpObjectDef(x *ast.ObjectDefinition) string {
	impl := ""
	if len(x.Interfaces) > 0 {
		impl = "(Impl"
		for _, i := range x.Interfaces {
			impl += " " + zzDumpNamed(i)
		}
		impl += ")"
	}
	return zzN("ObjectDef", zzLocStart(x.Loc), zzDumpDesc(x.Description), zzDumpName(x.Name), impl, zzDumpDirs(x.Directives), zzDumpFieldDefs(x.Fields))
}

func zzDumpDef(d ast.Node) string {
	switch x := d.(type) {
	case *ast.OperationDefinition:
		var vars []string
		for _, v := range x.VariableDefinitions {
			vr := ""
			if v.Variable != nil {
				vr = zzN("Var", zzLocStart(v.Variable.Loc), zzDumpName(v.Variable.Name))
			}
			vars = append(vars, zzN("VarDef", zzLocStart(v.Loc), vr, zzDumpType(v.Type), zzDumpValue(v.DefaultValue)))
		}
		return zzN("Op", zzLocStart(x.Loc), x.Operation, zzDumpName(x.Name), zzJoin(vars), zzDumpDirs(x.Directives), zzDumpSS(x.SelectionSet))
	case *ast.FragmentDefinition:
		return zzN("FragDef", zzLocStart(x.Loc), zzDumpName(x.Name), zzDumpNamed(x.TypeCondition), zzDumpDirs(x.Directives), zzDumpSS(x.SelectionSet))
	case *ast.SchemaDefinition:
		var ops []string
		for _, o := range x.OperationTypes {
			ops = append(ops, zzN("OpType", zzLocStart(o.Loc), o.Operation, zzDumpNamed(o.Type)))
		}
		return zzN("Schema", zzLocStart(x.Loc), zzDumpDirs(x.Directives), zzJoin(ops))
	case *ast.ScalarDefinition:
		return zzN("Scalar", zzLocStart(x.Loc), zzDumpDesc(x.Description), zzDumpName(x.Name), zzDumpDirs(x.Directives))
	case *ast.ObjectDefinition:
		return zzDumpObjectDef(x)
	case *ast.InterfaceDefinition:
		return zzN("Interface", zzLocStart(x.Loc), zzDumpDesc(x.Description), zzDumpName(x.Name), zzDumpDirs(x.Directives), zzDumpFieldDefs(x.Fields))
	case *ast.UnionDefinition:
		var ts []string
		for _, t := range x.Types {
			ts = append(ts, zzDumpNamed(t))
		}
		return zzN("Union", zzLocStart(x.Loc), zzDumpDesc(x.Description), zzDumpName(x.Name), zzDumpDirs(x.Directives), zzJoin(ts))
	case *ast.EnumDefinition:
		var vs []string
		for _, v := range x.Values {
			vs = append(vs, zzN("EnumVal", zzLocStart(v.Loc), zzDumpDesc(v.Description), zzDumpName(v.Name), zzDumpDirs(v.Directives)))
		}
		return zzN("EnumDef", zzLocStart(x.Loc), zzDumpDesc(x.Description), zzDumpName(x.Name), zzDumpDirs(x.Directives), zzJoin(vs))
	case *ast.InputObjectDefinition:
		return zzN("InputDef", zzLocStart(x.Loc), zzDumpDesc(x.Description), zzDumpName(x.Name), zzDumpDirs(x.Directives), zzDumpIVDs(x.Fields))
	case *ast.TypeExtensionDefinition:
		inner := ""
		if x.Definition != nil {
			inner = zzDumpObjectDef(x.Definition)
		}
		return zzN("Extend", zzLocStart(x.Loc), inner)
	case *ast.DirectiveDefinition:
		var ls []string
		for _, l := range x.Locations {
			ls = append(ls, zzDumpName(l))
		}
		return zzN("DirectiveDef", zzLocStart(x.Loc), zzDumpDesc(x.Description), zzDumpName(x.Name), zzDumpIVDs(x.Arguments), zzJoin(ls))
	}
	return "(?definition)"
}

func zzDumpDoc(doc *ast.Document) string {
	var defs []string
	for _, d := range doc.Definitions {
		defs = append(defs, zzDumpDef(d))
	}
	return zzN("Document", zzLocStart(doc.Loc), zzJoin(defs))
}

// zzCheckTree: for a text of the grammar, the parser's AST is the grammar's tree.
func zzCheckTree(text string) bool {
	ok, lexOK := zzRefAccepts(text)
	if !ok || !lexOK {
		return false
	}
	lex := lexer.Lex(&source.Source{Body: []byte(text)})
	var toks []lexer.Token
	for {
		t, err := lex(0)
		if err != nil {
			return false
		}
		toks = append(toks, t)
		if t.Kind == lexer.EOF {
			break
		}
	}
	b := &zzB{toks: toks}
	want := b.document()
	doc, err := Parse(ParseParams{Source: &source.Source{Body: []byte(text), Name: "zz"}})
	if err != nil {
		return false // accept/reject disagreement is reported by zzCheckParse
	}
	got := zzDumpDoc(doc)
	if got != want {
		zzFail("the parser's AST is not the tree the grammar defines for: " + text + "\n got  " + got + "\n want " + want)
	}
	return true
}

var zzTreeDocs = []string{
	"query Q($v: [Int!] = [1], $w: T) @d(a: 1) { x: f(a: {k: $v, l: [1.5, \"s\", true, E, \"\"\"b\"\"\"]}) @e { g } ...F @s ... on T @t { h } ... @i { j } k }",
	"fragment F on T @d(x: $y) { a b: c }",
	"mutation { m } subscription S { s } { q }",
	"\"d\" type T implements I & J @d(a: 1) { \"f\" f(\"a\" a: Int = 1 @x, b: [T]): [T!]! @y g: T }",
	"type A implements & I { f: Int } type B implements I { f: Int }",
	"\"\"\"i\"\"\" interface I @d { f: Int }",
	"\"u\" union U @d = A | B",
	"scalar S @d \"s2\" scalar S2",
	"\"e\" enum E @d { \"v\" A @x B }",
	"\"in\" input In @d { \"f\" f: Int = 1 @x g: [In!] = [{f: 2}] }",
	"extend type T @d { f: Int }",
	"schema @d { query: Q mutation: M subscription: S }",
	"\"dd\" directive @d(a: Int = 1, \"b\" b: T) on FIELD | QUERY",
	"type T { } enum E { } input I { } interface J { }",
}

// ZZ_C03_tree: the AST of documents covering every production, as written and
// with one token replaced by / deleted / preceded by each alphabet token (the
// variants that stay inside the grammar), is the tree the grammar defines.
func ZZ_C03_tree() {
	si := zzChoice("seed", len(zzTreeDocs))
	text := zzTreeDocs[si]
	if zzChoice("mutate", 2) == 0 {
		zzAssert(zzCheckTree(text), "a seed document is outside the grammar: "+text)
		zzCover("end")
		return
	}
	// token-level mutation: split on blanks is not possible here (punctuation is
	// glued), so mutate at the level of the real token stream
	lex := lexer.Lex(&source.Source{Body: []byte(text)})
	var toks []lexer.Token
	for {
		t, err := lex(0)
		if err != nil {
			return
		}
		if t.Kind == lexer.EOF {
			break
		}
		toks = append(toks, t)
	}
	pos := zzChoice("pos", len(toks))
	op := zzChoice("op", 3)
	ins := zzTokAlphabet[zzChoice("tok", len(zzTokAlphabet))]
	b := []byte(text)
	t := toks[pos]
	var mutated string
	switch op {
	case 0: // replace
		mutated = string(b[:t.Start]) + " " + ins + " " + string(b[t.End:])
	case 1: // delete
		zzAssume(ins == zzTokAlphabet[0])
		mutated = string(b[:t.Start]) + " " + string(b[t.End:])
	default: // insert before
		mutated = string(b[:t.Start]) + " " + ins + " " + string(b[t.Start:])
	}
	if zzCheckTree(mutated) {
		zzCover("mutant-in-grammar")
	}
	zzCover("end")
}
