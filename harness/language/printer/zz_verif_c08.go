package printer

import (
	"reflect"

	"github.com/graphql-go/graphql/language/ast"
	"github.com/graphql-go/graphql/language/parser"
	"github.com/graphql-go/graphql/language/source"
)

func zzParseText(text string) (*ast.Document, error) {
	return parser.Parse(parser.ParseParams{Source: &source.Source{Body: []byte(text), Name: "zz"}, Options: parser.ParseOptions{NoLocation: true}})
}

func zzPrintString(node ast.Node) string {
	s, _ := Print(node).(string)
	return s
}

// ZZ_C08_string: a string value with arbitrary contents (it can arise from
// escapes or raw bytes) survives print -> parse, in argument, default-value,
// list and object positions.
func ZZ_C08_string() {
	k := zzChoice("k", zzParam("K", 2)+1)
	s := zzString("s", k)
	pos := zzChoice("pos", 4)
	sv := &ast.StringValue{Kind: "StringValue", Value: s}
	var val ast.Value = sv
	switch pos {
	case 1:
		val = &ast.ListValue{Kind: "ListValue", Values: []ast.Value{sv}}
	case 2:
		val = &ast.ObjectValue{Kind: "ObjectValue", Fields: []*ast.ObjectField{{Kind: "ObjectField", Name: &ast.Name{Kind: "Name", Value: "k"}, Value: sv}}}
	}
	seed, err := zzParseText(`query Q($v: String = "d") { f(a: "x") }`)
	zzAssert(err == nil, "seed parses")
	op := seed.Definitions[0].(*ast.OperationDefinition)
	if pos == 3 {
		op.VariableDefinitions[0].DefaultValue = sv
	} else {
		op.SelectionSet.Selections[0].(*ast.Field).Arguments[0].Value = val
	}
	text := zzPrintString(seed)
	doc2, err := zzParseText(text)
	zzAssert(err == nil, "printed document does not parse")
	op2 := doc2.Definitions[0].(*ast.OperationDefinition)
	var got ast.Value
	if pos == 3 {
		got = op2.VariableDefinitions[0].DefaultValue
	} else {
		got = op2.SelectionSet.Selections[0].(*ast.Field).Arguments[0].Value
	}
	switch pos {
	case 1:
		lv, ok := got.(*ast.ListValue)
		zzAssert(ok && len(lv.Values) == 1, "list shape lost")
		got = lv.Values[0]
	case 2:
		ov, ok := got.(*ast.ObjectValue)
		zzAssert(ok && len(ov.Fields) == 1 && ov.Fields[0].Name.Value == "k", "object shape lost")
		got = ov.Fields[0].Value
	}
	g, ok := got.(*ast.StringValue)
	zzAssert(ok, "string value became another kind")
	zzAssert(zzStrEq(g.Value, s), "string contents changed by the round trip")
	zzAssert(zzStrEq(zzPrintString(doc2), text), "print is not stable after one round")
	zzCover("end")
}

// ZZ_C08_description: a description with arbitrary contents survives
// print -> parse on a type, a field, an argument and an enum value.
func ZZ_C08_description() {
	k := 1 + zzChoice("k", zzParam("K", 3))
	d := zzString("d", k)
	pos := zzChoice("pos", 4)
	seed, err := zzParseText("\"\"\"T\"\"\"\ntype T {\n  \"\"\"F\"\"\"\n  f(\n    \"\"\"A\"\"\"\n    a: Int): Int\n}\nenum E {\n  \"\"\"V\"\"\"\n  V\n}")
	zzAssert(err == nil, "seed parses")
	td := seed.Definitions[0].(*ast.ObjectDefinition)
	ed := seed.Definitions[1].(*ast.EnumDefinition)
	sv := &ast.StringValue{Kind: "StringValue", Value: d}
	switch pos {
	case 0:
		td.Description = sv
	case 1:
		td.Fields[0].Description = sv
	case 2:
		td.Fields[0].Arguments[0].Description = sv
	case 3:
		ed.Values[0].Description = sv
	}
	text := zzPrintString(seed)
	doc2, err := zzParseText(text)
	zzAssert(err == nil, "printed document does not parse")
	zzAssert(len(doc2.Definitions) == 2, "definitions lost")
	td2, ok1 := doc2.Definitions[0].(*ast.ObjectDefinition)
	ed2, ok2 := doc2.Definitions[1].(*ast.EnumDefinition)
	zzAssert(ok1 && ok2 && len(td2.Fields) == 1 && len(td2.Fields[0].Arguments) == 1 && len(ed2.Values) == 1, "shape lost")
	var got *ast.StringValue
	switch pos {
	case 0:
		got = td2.Description
	case 1:
		got = td2.Fields[0].Description
	case 2:
		got = td2.Fields[0].Arguments[0].Description
	case 3:
		got = ed2.Values[0].Description
	}
	zzAssert(got != nil, "description lost")
	zzAssert(zzStrEq(got.Value, d), "description changed by the round trip")
	zzAssert(zzStrEq(zzPrintString(doc2), text), "print is not stable after one round")
	zzCover("end")
}

// zzOpt appends s when bit i of mask is set.
func zzOpt(mask, i int, s string) string {
	if mask&(1<<uint(i)) != 0 {
		return s
	}
	return ""
}

// zzOptionalDoc builds a document for node kind k whose optional parts are
// switched by mask (every combination of presence/absence is enumerated).
func zzOptionalDoc(k, mask int) (string, int) {
	switch k {
	case 0: // operation: type x name x variables x directives
		ops := []string{"query", "mutation", "subscription"}
		op := ops[mask%3]
		m := mask / 3
		return op + zzOpt(m, 0, " N") + zzOpt(m, 1, "($v: Int = 1 @vd)") + zzOpt(m, 2, " @d(a: 1) @e") + " { f }", 3 * 8
	case 1: // field: alias x arguments x directives x selection
		return "{ " + zzOpt(mask, 0, "al: ") + "f" + zzOpt(mask, 1, "(a: 1, b: [])") + zzOpt(mask, 2, " @d(x: {})") + zzOpt(mask, 3, " { g }") + " }", 16
	case 2: // inline fragment: type condition x directives
		return "{ ..." + zzOpt(mask, 0, " on T") + zzOpt(mask, 1, " @d(a: \"s\")") + " { f } }", 4
	case 3: // fragment spread and definition: directives
		return "{ ...F" + zzOpt(mask, 0, " @d(a: $v)") + " } fragment F on T" + zzOpt(mask, 1, " @fd(b: ENUM)") + " { f }", 4
	case 4: // variable definition: default x list/non-null wrappers
		types := []string{"Int", "Int!", "[Int]", "[Int!]!", "[[Int]!]"}
		t := types[mask%5]
		m := mask / 5
		return "query ($v: " + t + zzOpt(m, 0, " = [1, 2]") + ") { f(a: $v) }", 5 * 2
	case 5: // object type: description x interfaces x directives x fields
		return zzOpt(mask, 0, "\"\"\"d\"\"\" ") + "type T" + zzOpt(mask, 1, " implements I & J") + zzOpt(mask, 2, " @d(a: 1)") + " {" + zzOpt(mask, 3, " f(a: Int = 1 @ad(x: 1)): Int @fd(y: 2)") + " }", 16
	case 6: // interface, union, scalar, enum, input, extension, schema, directive definition: directives x description
		defs := []string{
			"interface I%s { f: Int }", "union U%s = A | B", "scalar S%s", "enum E%s { A @v(a: 1) B }", "input In%s { f: Int = 1 @fd }",
			"extend type T%s { f: Int }", "schema%s { query: Q mutation: M }",
		}
		d := defs[mask%len(defs)]
		m := mask / len(defs)
		out := ""
		for i := 0; i < len(d); i++ {
			if d[i] == '%' && i+1 < len(d) && d[i+1] == 's' {
				out += zzOpt(m, 0, " @d(a: [1, {k: true}])")
				i++
				continue
			}
			out += string(d[i])
		}
		return zzOpt(m, 1, "\"desc\" ") + out, len(defs) * 4
	case 7: // directive definition: description x arguments x locations
		return zzOpt(mask, 0, "\"\"\"d\"\"\" ") + "directive @d" + zzOpt(mask, 1, "(a: Int = 1, b: [String!])") + " on FIELD" + zzOpt(mask, 2, " | QUERY | FRAGMENT_SPREAD"), 8
	case 8: // values: every literal kind nested
		vals := []string{"1", "-1.5e3", "\"s\"", "true", "false", "ENUM", "$v", "[]", "[1, [2, []]]", "{}", "{a: {b: [{c: 1}]}}", "\"\"\"block\"\"\""}
		return "query ($v: Int) { f(a: " + vals[mask%len(vals)] + ") }", len(vals)
	}
	return "{ f }", 1
}

// ZZ_C08_optional: every node kind with every combination of its optional
// parts (name, variables, directives with arguments, alias, arguments,
// selection, type condition, default value, description, interfaces, fields,
// locations) survives print -> parse structurally and prints stably.
func ZZ_C08_optional() {
	k := zzChoice("kind", 9)
	_, n := zzOptionalDoc(k, 0)
	mask := zzChoice("mask", n)
	text, _ := zzOptionalDoc(k, mask)
	doc, err := zzParseText(text)
	if err != nil {
		// extensions with descriptions etc. may be outside the grammar the parser accepts: not this check's business
		zzCover("unparsable-template")
		return
	}
	snapshot, _ := zzParseText(text)
	printed := zzPrintString(doc)
	zzAssert(reflect.DeepEqual(doc, snapshot), "printing modified the AST")
	doc2, err := zzParseText(printed)
	if err != nil {
		zzFail("printed document does not parse: " + printed)
	}
	if !zzSameTree(reflect.ValueOf(doc), reflect.ValueOf(doc2)) {
		zzFail("re-parsed AST differs from the original for: " + text + " printed as: " + printed)
	}
	zzAssert(zzPrintString(doc2) == printed, "print is not stable after one round")
	zzCover("end")
}

// ZZ_C08_desc_lines: descriptions built from up to LINES lines, each with 0..2
// leading blanks (space or tab by choice) and a body that may be empty: the
// shapes BlockStringValue() treats specially (common indentation, blank first /
// last / interior lines).
func ZZ_C08_desc_lines() {
	nl := 1 + zzChoice("lines", zzParam("LINES", 3))
	d := ""
	for i := 0; i < nl; i++ {
		if i > 0 {
			d += "\n"
		}
		ind := zzChoice("indent"+string(rune('0'+i)), 3)
		ws := " "
		if ind > 0 && zzChoice("tab"+string(rune('0'+i)), 2) == 1 {
			ws = "\t"
		}
		for j := 0; j < ind; j++ {
			d += ws
		}
		bodies := []string{"", "x", "x y "}
		d += bodies[zzChoice("body"+string(rune('0'+i)), len(bodies))]
	}
	if d == "" {
		return
	}
	pos := zzChoice("pos", 2)
	seed, err := zzParseText("\"\"\"T\"\"\"\ntype T {\n  \"\"\"F\"\"\"\n  f: Int\n}")
	zzAssert(err == nil, "seed parses")
	td := seed.Definitions[0].(*ast.ObjectDefinition)
	sv := &ast.StringValue{Kind: "StringValue", Value: d}
	if pos == 0 {
		td.Description = sv
	} else {
		td.Fields[0].Description = sv
	}
	text := zzPrintString(seed)
	doc2, err := zzParseText(text)
	if err != nil {
		zzFail("printed document does not parse: " + text)
	}
	td2 := doc2.Definitions[0].(*ast.ObjectDefinition)
	got := td2.Description
	if pos == 1 {
		got = td2.Fields[0].Description
	}
	if got == nil || got.Value != d {
		zzFail("description changed by the round trip: printed " + text)
	}
	zzAssert(zzPrintString(doc2) == text, "print is not stable after one round")
	zzCover("end")
}

// zzSameTree: structural equality of ASTs in which a nil slice and an empty
// slice are the same (the parser builds either depending on the production).
func zzSameTree(a, b reflect.Value) bool {
	if !a.IsValid() || !b.IsValid() {
		return a.IsValid() == b.IsValid()
	}
	if a.Type() != b.Type() {
		return false
	}
	switch a.Kind() {
	case reflect.Ptr, reflect.Interface:
		if a.IsNil() || b.IsNil() {
			return a.IsNil() == b.IsNil()
		}
		return zzSameTree(a.Elem(), b.Elem())
	case reflect.Slice:
		if a.Len() != b.Len() {
			return false
		}
		for i := 0; i < a.Len(); i++ {
			if !zzSameTree(a.Index(i), b.Index(i)) {
				return false
			}
		}
		return true
	case reflect.Struct:
		for i := 0; i < a.NumField(); i++ {
			if !zzSameTree(a.Field(i), b.Field(i)) {
				return false
			}
		}
		return true
	case reflect.String:
		return a.String() == b.String()
	case reflect.Bool:
		return a.Bool() == b.Bool()
	case reflect.Int:
		return a.Int() == b.Int()
	}
	return reflect.DeepEqual(a.Interface(), b.Interface())
}

// ZZ_C08_number: every text of up to N bytes that the lexer reads as one Int or
// Float literal in argument position (signs, fractions, exponents with e or E
// and an optional sign) keeps its kind and its literal text across
// print -> parse.
func ZZ_C08_number() {
	n := 1 + zzChoice("n", zzParam("N", 5))
	lit := zzString("lit", n)
	doc, err := zzParseText("{ f(a: " + lit + ") }")
	if err != nil {
		zzCover("rejected")
		return
	}
	op, ok := doc.Definitions[0].(*ast.OperationDefinition)
	if !ok || len(doc.Definitions) != 1 || len(op.SelectionSet.Selections) != 1 {
		return
	}
	f, ok := op.SelectionSet.Selections[0].(*ast.Field)
	if !ok || len(f.Arguments) != 1 {
		return
	}
	var kind, text string
	switch v := f.Arguments[0].Value.(type) {
	case *ast.IntValue:
		kind, text = "Int", v.Value
	case *ast.FloatValue:
		kind, text = "Float", v.Value
	default:
		return
	}
	printed := zzPrintString(doc)
	doc2, err := zzParseText(printed)
	zzAssert(err == nil, "printed document does not parse")
	f2 := doc2.Definitions[0].(*ast.OperationDefinition).SelectionSet.Selections[0].(*ast.Field)
	zzAssert(len(f2.Arguments) == 1, "argument lost")
	switch v := f2.Arguments[0].Value.(type) {
	case *ast.IntValue:
		zzAssert(kind == "Int" && zzStrEq(v.Value, text), "Int literal changed by the round trip")
	case *ast.FloatValue:
		zzAssert(kind == "Float" && zzStrEq(v.Value, text), "Float literal changed by the round trip")
	default:
		zzFail("number literal became another kind")
	}
	if kind == "Float" {
		zzCover("float")
	}
	zzCover("end")
}
