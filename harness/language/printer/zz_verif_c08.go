package printer

import (
	"github.com/graphql-go/graphql/language/ast"
	"github.com/graphql-go/graphql/language/parser"
	"github.com/graphql-go/graphql/language/source"
)

func zzParseText(text string) (*ast.Document, error) {
	return parser.Parse(parser.ParseParams{Source: &source.Source{Body: []byte(text), Name: "zz"}, Options: parser.ParseOptions{NoLocation: true}})
}

func zzPrintString(node ast.Node) string {
	s, _ := Print(node).(string)
	return s
}

// ZZ_C08_string: a string value with arbitrary contents (it can arise from
// escapes or raw bytes) survives print -> parse, in argument, default-value,
// list and object positions.
func ZZ_C08_string() {
	k := zzChoice("k", zzParam("K", 2)+1)
	s := zzString("s", k)
	pos := zzChoice("pos", 4)
	sv := &ast.StringValue{Kind: "StringValue", Value: s}
	var val ast.Value = sv
	switch pos {
	case 1:
		val = &ast.ListValue{Kind: "ListValue", Values: []ast.Value{sv}}
	case 2:
		val = &ast.ObjectValue{Kind: "ObjectValue", Fields: []*ast.ObjectField{{Kind: "ObjectField", Name: &ast.Name{Kind: "Name", Value: "k"}, Value: sv}}}
	}
	seed, err := zzParseText(`query Q($v: String = "d") { f(a: "x") }`)
	zzAssert(err == nil, "seed parses")
	op := seed.Definitions[0].(*ast.OperationDefinition)
	if pos == 3 {
		op.VariableDefinitions[0].DefaultValue = sv
	} else {
		op.SelectionSet.Selections[0].(*ast.Field).Arguments[0].Value = val
	}
	text := zzPrintString(seed)
	doc2, err := zzParseText(text)
	zzAssert(err == nil, "printed document does not parse")
	op2 := doc2.Definitions[0].(*ast.OperationDefinition)
	var got ast.Value
	if pos == 3 {
		got = op2.VariableDefinitions[0].DefaultValue
	} else {
		got = op2.SelectionSet.Selections[0].(*ast.Field).Arguments[0].Value
	}
	switch pos {
	case 1:
		lv, ok := got.(*ast.ListValue)
		zzAssert(ok && len(lv.Values) == 1, "list shape lost")
		got = lv.Values[0]
	case 2:
		ov, ok := got.(*ast.ObjectValue)
		zzAssert(ok && len(ov.Fields) == 1 && ov.Fields[0].Name.Value == "k", "object shape lost")
		got = ov.Fields[0].Value
	}
	g, ok := got.(*ast.StringValue)
	zzAssert(ok, "string value became another kind")
	zzAssert(zzStrEq(g.Value, s), "string contents changed by the round trip")
	zzAssert(zzStrEq(zzPrintString(doc2), text), "print is not stable after one round")
	zzCover("end")
}

// ZZ_C08_description: a description with arbitrary contents survives
// print -> parse on a type, a field, an argument and an enum value.
func ZZ_C08_description() {
	k := 1 + zzChoice("k", zzParam("K", 3))
	d := zzString("d", k)
	pos := zzChoice("pos", 4)
	seed, err := zzParseText("\"\"\"T\"\"\"\ntype T {\n  \"\"\"F\"\"\"\n  f(\n    \"\"\"A\"\"\"\n    a: Int): Int\n}\nenum E {\n  \"\"\"V\"\"\"\n  V\n}")
	zzAssert(err == nil, "seed parses")
	td := seed.Definitions[0].(*ast.ObjectDefinition)
	ed := seed.Definitions[1].(*ast.EnumDefinition)
	sv := &ast.StringValue{Kind: "StringValue", Value: d}
	switch pos {
	case 0:
		td.Description = sv
	case 1:
		td.Fields[0].Description = sv
	case 2:
		td.Fields[0].Arguments[0].Description = sv
	case 3:
		ed.Values[0].Description = sv
	}
	text := zzPrintString(seed)
	doc2, err := zzParseText(text)
	zzAssert(err == nil, "printed document does not parse")
	zzAssert(len(doc2.Definitions) == 2, "definitions lost")
	td2, ok1 := doc2.Definitions[0].(*ast.ObjectDefinition)
	ed2, ok2 := doc2.Definitions[1].(*ast.EnumDefinition)
	zzAssert(ok1 && ok2 && len(td2.Fields) == 1 && len(td2.Fields[0].Arguments) == 1 && len(ed2.Values) == 1, "shape lost")
	var got *ast.StringValue
	switch pos {
	case 0:
		got = td2.Description
	case 1:
		got = td2.Fields[0].Description
	case 2:
		got = td2.Fields[0].Arguments[0].Description
	case 3:
		got = ed2.Values[0].Description
	}
	zzAssert(got != nil, "description lost")
	zzAssert(zzStrEq(got.Value, d), "description changed by the round trip")
	zzAssert(zzStrEq(zzPrintString(doc2), text), "print is not stable after one round")
	zzCover("end")
}
