package printer

import (
	"reflect"
)

var zzKitchen = []string{
	`# Filename: kitchen-sink.graphql

query namedQuery($foo: ComplexFooType, $bar: Bar = DefaultBarValue) {
  customUser: user(id: [987, 654]) {
    id,
    ... on User @defer {
      field2 {
        id ,
        alias: field1(first:10, after:$foo,) @include(if: $foo) {
          id,
          ...frag
        }
      }
    }
    ... @skip(unless: $foo) {
      id
    }
    ... {
      id
    }
  }
}

mutation favPost {
  fav(post: 123) @defer {
    post {
      id
    }
  }
}

subscription PostFavSubscription($input: StoryLikeSubscribeInput) {
  postFavSubscribe(input: $input) {
    post {
      favers {
        count
      }
      favSentence {
        text
      }
    }
  }
}

fragment frag on Follower {
  foo(size: $size, bar: $b, obj: {key: "value"})
}

{
  unnamed(truthyVal: true, falseyVal: false),
  query
}
`,
	`# Filename: schema-kitchen-sink.graphql

schema {
  query: QueryType
  mutation: MutationType
}

type Foo implements Bar & Baz {
  one: Type
  two(argument: InputType!): Type
  three(argument: InputType, other: String): Int
  four(argument: String = "string"): String
  five(argument: [String] = ["string", "string"]): String
  six(argument: InputType = {key: "value"}): Type
}

type AnnotatedObject @onObject(arg: "value") {
  annotatedField(arg: Type = "default" @onArg): Type @onField
}

interface Bar {
  one: Type
  four(argument: String = "string"): String
}

interface AnnotatedInterface @onInterface {
  annotatedField(arg: Type @onArg): Type @onField
}

union Feed = Story | Article | Advert

union AnnotatedUnion @onUnion = A | B

scalar CustomScalar

scalar AnnotatedScalar @onScalar

enum Site {
  DESKTOP
  MOBILE
}

enum AnnotatedEnum @onEnum {
  ANNOTATED_VALUE @onEnumValue
  OTHER_VALUE
}

input InputType {
  key: String!
  answer: Int = 42
}

input AnnotatedInput @onInputObjectType {
  annotatedField: Type @onField
}

extend type Foo {
  seven(argument: [String]): Type
}

extend type Foo @onType {}

type NoFields {}

directive @skip(if: Boolean!) on FIELD | FRAGMENT_SPREAD | INLINE_FRAGMENT

directive @include(if: Boolean!)
  on FIELD
  | FRAGMENT_SPREAD
  | INLINE_FRAGMENT
`,
	`# File: schema-all-descriptions.graphql

"""single line scalar description"""
scalar ScalarSingleLine

"""
multi line

scalar description
"""
scalar ScalarMultiLine

"""single line object description"""
type ObjectSingleLine {
  no_description: ID

  """single line field description"""
  single_line(a: ID, b: ID, c: ID, d: ID): ID

  """
  multi line

  field description
  """
  multi_line(
    a: ID

    """single line argument description"""
    b: ID

    """
    multi line

    field description
    """
    c: ID
    d: ID
  ): ID
}

"""
multi line

object description
"""
type ObjectMultiLine {
  foo: ID
}

"""single line interface description"""
interface InterfaceSingleLine {
  no_description: ID

  """single line field description"""
  single_line(a: ID, b: ID, c: ID, d: ID): ID

  """
  multi line

  field description
  """
  multi_line(
    a: ID

    """single line argument description"""
    b: ID

    """
    multi line

    argument description
    """
    c: ID
    d: ID
  ): ID
}

"""
multi line

interface description
"""
interface InterfaceMultiLine {
  foo: ID
}

"""single line union description"""
union UnionSingleLine = String | Int | Float | ID

"""
multi line

union description
"""
union UnionSingleLine = String | Int | Float | ID

"""single line enum description"""
enum EnumSingleLine {
  no_description

  """single line enum description"""
  single_line

  """
  multi line

  enum description
  """
  multi_line
  again_no_description
}

"""
multi line

enum description
"""
enum EnumMultiLine {
  foo
}

"""single line input description"""
input InputSingleLine {
  a: ID

  """single line argument description"""
  b: ID
  
  """
  multi line

  argument description
  """
  c: ID
  d: ID
}

"""
multi line

input description
"""
input InputMultiLine {
  foo: ID
}

"""single line directive description"""
directive @DirectiveSingleLine(
  a: ID

  """single line argument description"""
  b: ID

  """
  multi line

  argument description
  """
  c: ID
  d: ID
) on SCALAR

"""
multi line

directive description
"""
directive @DirectiveMultiLine on SCALAR
`,
	`query Q($a: [Int!]! = [1, 2], $b: In = {x: 1.5e3, y: [true, null0], z: ENUM}, $c: String = "s\n\"q\"") @dir(a: 1) {
  a: f(x: -0.5, y: "", z: [[1], []], w: {}) @d1 @d2(k: $a) { ...F @d3 ... on T @d4 { g } ... @d5 { h } }
}
fragment F on T @fd(x: "y") { i }
`,
	`{ a }`,
	`type T @a(x: [1, "two", {k: null1}]) { f(a: Int = 1 @b(y: 2)): [T!]! @c(z: ENUM) }`,
	`enum E @e(a: 1) { A @v(x: "1") B } union U @u(a: 1) = A | B scalar S @s(a: 1) input I @i(a: 1) { f: Int = 3 @f(a: 1) } interface N @n(a: 1) { f: Int @g(a: 1) } extend type T @x(a: 1) { g: Int } schema @q(a: 1) { query: Q } directive @d(a: Int = 1 @z(a: 1)) on FIELD`,
}

// ZZ_C08_kitchen: documents covering every node kind: print(parse(text))
// re-parses to a structurally identical AST, printing is stable after one
// round, and printing does not modify the AST.
func ZZ_C08_kitchen() {
	i := zzChoice("doc", len(zzKitchen))
	doc, err := zzParseText(zzKitchen[i])
	zzAssert(err == nil, "seed parses")
	snapshot, _ := zzParseText(zzKitchen[i])
	text := zzPrintString(doc)
	zzAssert(reflect.DeepEqual(doc, snapshot), "printing modified the AST")
	doc2, err := zzParseText(text)
	zzAssert(err == nil, "printed document does not parse")
	zzAssert(reflect.DeepEqual(doc, doc2), "re-parsed AST differs structurally from the original")
	zzAssert(zzPrintString(doc2) == text, "print is not stable after one round")
	zzCover("end")
}
