package visitor

import (
	"reflect"

	"github.com/graphql-go/graphql/language/ast"
	"github.com/graphql-go/graphql/language/parser"
	"github.com/graphql-go/graphql/language/source"
)

var zzDocs = []string{
	`query Q($v: Int = 1) { a: f(x: [1, {k: "s"}]) @d(i: $v) { ...F ... on T { g } } } fragment F on T { h }`,
	`type T implements I @a(x: 1) { f(a: Int = 1): [T!]! } enum E { A B } union U = A | B input In { f: Int = 3 } interface I { f: Int } scalar S extend type T { g: Int } schema { query: Q } directive @d(a: Int) on FIELD`,
	`{ a }`,
	`mutation M { m(i: {a: {b: [true, 1.5, ENUM]}}) } subscription S { s }`,
}

type zzEv struct {
	leave bool
	node  interface{}
	key   interface{}
	path  string
}

func zzKeyStr(k interface{}) string {
	switch v := k.(type) {
	case string:
		return v
	case int:
		s := ""
		if v == 0 {
			return "0"
		}
		for v > 0 {
			s = string(rune('0'+v%10)) + s
			v /= 10
		}
		return s
	}
	return "?"
}

func zzPathStr(p []interface{}) string {
	s := ""
	for _, k := range p {
		s += "/" + zzKeyStr(k)
	}
	return s
}

const (
	zzActNone = iota
	zzActSkip
	zzActBreak
)

// zzRefWalk: plain recursive reference traversal producing the expected event
// list under a policy (action at event index).
type zzRefWalker struct {
	keys    KeyMap // nil = the default QueryDocumentKeys
	events  []zzEv
	parents []ast.Node // enclosing node per enter event
	policy  map[int]int
	stopped bool
}

func (w *zzRefWalker) walk(node ast.Node, key interface{}, path []interface{}, enclosing ast.Node) {
	if w.stopped || node == nil || reflect.ValueOf(node).IsNil() {
		return
	}
	idx := len(w.events)
	w.events = append(w.events, zzEv{false, node, key, zzPathStr(path)})
	w.parents = append(w.parents, enclosing)
	switch w.policy[idx] {
	case zzActSkip:
		return
	case zzActBreak:
		w.stopped = true
		return
	}
	v := reflect.ValueOf(node).Elem()
	keys := w.keys
	if keys == nil {
		keys = QueryDocumentKeys
	}
	for _, k := range keys[node.GetKind()] {
		f := v.FieldByName(k)
		if !f.IsValid() {
			continue
		}
		if f.Kind() == reflect.Slice {
			for i := 0; i < f.Len(); i++ {
				child, ok := f.Index(i).Interface().(ast.Node)
				if !ok {
					continue
				}
				w.walk(child, i, append(append([]interface{}{}, path...), k, i), node)
				if w.stopped {
					return
				}
			}
			continue
		}
		if f.Kind() == reflect.Interface || f.Kind() == reflect.Ptr {
			if f.IsNil() {
				continue
			}
			child, ok := f.Interface().(ast.Node)
			if !ok {
				continue
			}
			w.walk(child, k, append(append([]interface{}{}, path...), k), node)
			if w.stopped {
				return
			}
		}
	}
	lidx := len(w.events)
	w.events = append(w.events, zzEv{true, node, key, zzPathStr(path)})
	w.parents = append(w.parents, enclosing)
	if w.policy[lidx] == zzActBreak {
		w.stopped = true
	}
}

func zzParseDoc(text string) *ast.Document {
	doc, err := parser.Parse(parser.ParseParams{Source: &source.Source{Body: []byte(text), Name: "zz"}})
	if err != nil {
		panic(err)
	}
	return doc
}

var zzAllKinds = []string{"Name", "Document", "OperationDefinition", "VariableDefinition", "Variable", "SelectionSet", "Field", "Argument", "FragmentSpread", "InlineFragment", "FragmentDefinition", "IntValue", "FloatValue", "StringValue", "BooleanValue", "EnumValue", "ListValue", "ObjectValue", "ObjectField", "Directive", "Named", "List", "NonNull", "SchemaDefinition", "OperationTypeDefinition", "ScalarDefinition", "ObjectDefinition", "FieldDefinition", "InputValueDefinition", "InterfaceDefinition", "UnionDefinition", "EnumDefinition", "EnumValueDefinition", "InputObjectDefinition", "TypeExtensionDefinition", "DirectiveDefinition"}

// zzMakeVisitor builds a recording visitor of the given form applying policy by its own event counter.
func zzMakeVisitor(form int, policy map[int]int, rec *[]zzEv, recParams *[]VisitFuncParams) *VisitorOptions {
	n := 0
	mk := func(leave bool) VisitFunc {
		return func(p VisitFuncParams) (string, interface{}) {
			idx := n
			n++
			*rec = append(*rec, zzEv{leave, p.Node, p.Key, zzPathStr(p.Path)})
			cp := p
			cp.Path = append([]interface{}{}, p.Path...)
			cp.Ancestors = append([]ast.Node{}, p.Ancestors...)
			*recParams = append(*recParams, cp)
			switch policy[idx] {
			case zzActSkip:
				// on leave there is no subtree left to skip: it must have no effect
				return ActionSkip, nil
			case zzActBreak:
				return ActionBreak, nil
			}
			return ActionNoChange, nil
		}
	}
	if form == 4 {
		form = 2
	}
	switch form {
	case 0:
		return &VisitorOptions{Enter: mk(false), Leave: mk(true)}
	case 1:
		m := map[string]NamedVisitFuncs{}
		for _, k := range zzAllKinds {
			m[k] = NamedVisitFuncs{Enter: mk(false), Leave: mk(true)}
		}
		return &VisitorOptions{KindFuncMap: m}
	case 3: // the kind-specific shorthand for enter together with a leave function
		m := map[string]NamedVisitFuncs{}
		for _, k := range zzAllKinds {
			m[k] = NamedVisitFuncs{Kind: mk(false), Leave: mk(true)}
		}
		return &VisitorOptions{KindFuncMap: m}
	default:
		em, lm := map[string]VisitFunc{}, map[string]VisitFunc{}
		for _, k := range zzAllKinds {
			em[k] = mk(false)
			lm[k] = mk(true)
		}
		return &VisitorOptions{EnterKindMap: em, LeaveKindMap: lm}
	}
}

func zzCheckAgainst(ref *zzRefWalker, got []zzEv, params []VisitFuncParams, what string) {
	zzAssert(len(got) == len(ref.events), what+": number of visitor events")
	for i := range got {
		if i >= len(ref.events) {
			break
		}
		e, r := got[i], ref.events[i]
		zzAssert(e.leave == r.leave && e.node == r.node, what+": wrong node or phase in the event sequence")
		zzAssert(e.key == r.key, what+": key")
		// the property fixes the path on enter only (on leave the library passes the parent's path)
		if !e.leave && e.path != r.path {
			ph := "enter"
			if e.leave {
				ph = "leave"
			}
			zzFail(what + ": path: event " + zzKeyStr(i) + " " + ph + " got " + e.path + " want " + r.path)
		}
		p := params[i]
		// The enclosing node is the parent when the node hangs off a struct field;
		// for elements of a list the parent is the list (reported as nil) and the
		// enclosing node is the innermost non-nil ancestor.
		var last ast.Node
		for _, a := range p.Ancestors {
			if a != nil {
				last = a
			}
		}
		if p.Parent != nil {
			zzAssert(p.Parent == ref.parents[i], what+": parent is not the enclosing node")
		} else {
			zzAssert(last == ref.parents[i], what+": innermost ancestor is not the enclosing node")
		}
	}
}

// ZZ_C14_visit: for every placement of up to two skip/break actions on the
// event sequence, each visitor form sees exactly the reference traversal; a
// traversal without edits leaves the tree untouched.
func ZZ_C14_visit() {
	di := zzChoice("doc", zzParam("DOCS", len(zzDocs)))
	doc := zzParseDoc(zzDocs[di])
	snapshot := zzParseDoc(zzDocs[di])
	base := &zzRefWalker{policy: map[int]int{}}
	base.walk(doc, nil, nil, nil)
	n := len(base.events)
	policy := map[int]int{}
	nact := zzParam("ACTIONS", 1)
	if di < zzParam("A2FROM", 0) && nact > 1 {
		nact = 1 // the two large documents get one action; pairs of actions would be ~10^6 paths each
	}
	for a := 0; a < nact; a++ {
		pos := zzChoice("pos"+zzKeyStr(a), n+1)
		if pos < n {
			act := zzActBreak
			if zzChoice("act"+zzKeyStr(a), 2) == 0 {
				act = zzActSkip
			}
			policy[pos] = act
		}
	}
	ref := &zzRefWalker{policy: policy}
	ref.walk(doc, nil, nil, nil)
	form := zzChoice("form", 4)
	var got []zzEv
	var params []VisitFuncParams
	Visit(doc, zzMakeVisitor(form, policy, &got, &params), nil)
	zzCheckAgainst(ref, got, params, "Visit")
	zzAssert(reflect.DeepEqual(doc, snapshot), "a traversal without edits modified the tree")
	zzCover("end")
}

// ZZ_C14_parallel: two visitors with independent policies run in parallel each
// observe the event sequence they would observe alone.
func ZZ_C14_parallel() {
	from := zzParam("FROM", 2)
	di := from + zzChoice("doc", len(zzDocs)-from)
	doc := zzParseDoc(zzDocs[di])
	base := &zzRefWalker{policy: map[int]int{}}
	base.walk(doc, nil, nil, nil)
	n := len(base.events)
	mkPolicy := func(tag string) map[int]int {
		policy := map[int]int{}
		pos := zzChoice("pos"+tag, n+1)
		if pos < n {
			act := zzActBreak
			if zzChoice("act"+tag, 2) == 0 {
				act = zzActSkip
			}
			policy[pos] = act
		}
		return policy
	}
	p1, p2 := mkPolicy("1"), mkPolicy("2")
	r1, r2 := &zzRefWalker{policy: p1}, &zzRefWalker{policy: p2}
	r1.walk(doc, nil, nil, nil)
	r2.walk(doc, nil, nil, nil)
	var g1, g2 []zzEv
	var q1, q2 []VisitFuncParams
	v1 := zzMakeVisitor(0, p1, &g1, &q1)
	v2 := zzMakeVisitor(3, p2, &g2, &q2) // the second visitor in the kind-specific form
	Visit(doc, VisitInParallel(v1, v2), nil)
	zzCheckAgainst(r1, g1, q1, "parallel visitor 1")
	zzCheckAgainst(r2, g2, q2, "parallel visitor 2")
	zzCover("end")
}


// zzSelectionsOnly: a caller-supplied key map that descends through
// definitions, selection sets and fields only.
var zzSelectionsOnly = KeyMap{
	"Document":            []string{"Definitions"},
	"OperationDefinition": []string{"SelectionSet"},
	"FragmentDefinition":  []string{"SelectionSet"},
	"SelectionSet":        []string{"Selections"},
	"Field":               []string{"SelectionSet"},
	"InlineFragment":      []string{"SelectionSet"},
	"FragmentSpread":      []string{},
}

// ZZ_C14_keymaps: traversals with a caller-supplied key map and with the
// default one, in either order within one process, each visit exactly the
// nodes their own key map reaches.
func ZZ_C14_keymaps() {
	di := zzChoice("doc", len(zzDocs))
	if di == 1 {
		di = 0 // the type-system document has nothing the custom key map reaches
	}
	doc := zzParseDoc(zzDocs[di])
	order := zzChoice("order", 2)
	form := zzChoice("form", 4)
	for round := 0; round < 3; round++ {
		var keys KeyMap
		if (round+order)%2 == 0 {
			keys = zzSelectionsOnly
		}
		ref := &zzRefWalker{policy: map[int]int{}, keys: keys}
		ref.walk(doc, nil, nil, nil)
		var got []zzEv
		var params []VisitFuncParams
		Visit(doc, zzMakeVisitor(form, map[int]int{}, &got, &params), keys)
		what := "Visit with the default key map"
		if keys != nil {
			what = "Visit with a caller-supplied key map"
		}
		zzCheckAgainst(ref, got, params, what)
	}
	zzCover("end")
}
