package main

import (
	"encoding/json"
	"fmt"
	"os"
	"path/filepath"
	"sort"

	"gosym/interp"
)

func writeEvidence(dir, prop, tier string, seed int, spec CheckSpec, outcomes []entryOutcome, problems []string,
	loadS, wallS float64, nRepro, nUnrepro, nKnown, nViol int, solver string) {
	os.MkdirAll(dir, 0o755)
	states, transitions := 0, int64(0)
	var steps int64
	funcs := map[string]bool{}
	var samples []interface{}
	var entries []map[string]interface{}
	sv := interp.SolverStats{}
	assertUnsat := int64(0)
	nontrivial := 0
	for _, o := range outcomes {
		if o.skipped {
			entries = append(entries, map[string]interface{}{"entry": o.spec.Entry, "skipped_in_tier": tier})
			continue
		}
		s := o.sum
		states += s.Paths
		transitions += s.Decisions
		steps += s.Steps
		for f := range s.Funcs {
			funcs[f] = true
		}
		sv.Queries += s.Solver.Queries
		sv.Sat += s.Solver.Sat
		sv.Unsat += s.Solver.Unsat
		sv.Unknown += s.Solver.Unknown
		sv.Errors += s.Solver.Errors
		sv.Seconds += s.Solver.Seconds
		assertUnsat += s.Notes["assert_unsat"]
		nontrivial += s.ByStatus["done"]
		// seed-chosen samples of completed paths
		n := len(s.Samples)
		for k := 0; k < 3 && k < n; k++ {
			ps := s.Samples[(seed+k*7)%n]
			samples = append(samples, map[string]interface{}{
				"entry": o.spec.Entry, "inputs": readable(interp.FoundViolation{Model: ps.Model, Inputs: ps.Inputs}),
				"decisions": len(ps.Decisions), "instructions": ps.Steps, "covers": ps.Covers, "digest": ps.Digest,
			})
		}
		entries = append(entries, map[string]interface{}{
			"entry": o.spec.Entry, "params": o.params, "paths": s.Paths, "paths_by_status": s.ByStatus, "decisions": s.Decisions,
			"instructions": s.Steps, "max_path_instructions": s.MaxPathSteps, "covers": s.Covers, "violations_found": len(s.Violations),
			"incomplete": s.Incomplete, "notes": s.Notes, "wall_s": o.wall, "note": o.spec.Note,
			"solver": s.Solver,
		})
	}
	var fl []string
	repoFns := 0
	for f := range funcs {
		fl = append(fl, f)
	}
	sort.Strings(fl)
	for _, f := range fl {
		if len(f) > 0 && (containsRepo(f)) {
			repoFns++
		}
	}
	if len(fl) > 400 {
		// keep the evidence readable: repo functions first
		var keep []string
		for _, f := range fl {
			if containsRepo(f) {
				keep = append(keep, f)
			}
		}
		fl = keep
		if len(fl) > 600 {
			fl = fl[:600]
		}
	}
	if len(samples) == 0 {
		samples = append(samples, "no completed path")
	}
	if states == 0 {
		states = 1
	}
	if transitions == 0 {
		transitions = 1
	}
	ev := map[string]interface{}{
		"property_id": prop,
		"tier":        tier,
		"seed":        seed,
		"level":       "model_checking",
		"coverage": map[string]interface{}{
			"states":                        states,
			"transitions":                   transitions,
			"traces_validated_against_impl": nRepro,
			"samples":                       samples,
			"evaluations":                   states,
			"distinct_nontrivial":           nontrivial,
			"rule":                          "one evaluation = one feasible path (decision vector) of a harness entry through the real SSA code, each covering every input assignment satisfying its path condition; distinct by construction (different decision vectors); non-trivial = ran to the end of the harness (status done), i.e. not cut by an assumption",
			"explanation":                   "bounded symbolic execution of /repo's SSA (go/ssa, rebuilt this run); every zzAssert is discharged by an SMT query PC ∧ ¬assertion (unsat = holds for all inputs of the path); counterexamples are replayed natively (go test -overlay) before being reported",
			"exhaustive":                    len(problems) == 0,
			"bounds":                        spec.Bounds,
			"outside_the_claim":             spec.Outside,
			"entries":                       entries,
			"functions_encoded":             fl,
			"functions_encoded_count":       len(funcs),
			"instructions_interpreted":      steps,
			"solver": map[string]interface{}{"backend": solver, "queries": sv.Queries, "sat": sv.Sat, "unsat": sv.Unsat, "unknown": sv.Unknown,
				"errors": sv.Errors, "seconds": sv.Seconds, "assertion_queries_unsat": assertUnsat},
			"counterexamples_reproduced_natively":   nRepro,
			"counterexamples_unreproduced":          nUnrepro,
			"known_findings_hit":                    nKnown,
			"problems":                              problems,
			"load_ssa_s":                            loadS,
		},
		"assumptions": spec.Assumptions,
		"wall_s":      wallS,
		"violations":  nViol,
	}
	data, _ := json.MarshalIndent(ev, "", " ")
	if err := os.WriteFile(filepath.Join(dir, prop+".json"), data, 0o644); err != nil {
		fmt.Fprintln(os.Stderr, "evidence:", err)
	}
}

func containsRepo(f string) bool {
	for i := 0; i+len(repoPath) <= len(f); i++ {
		if f[i:i+len(repoPath)] == repoPath {
			return true
		}
	}
	return false
}
