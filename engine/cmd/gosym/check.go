package main

import (
	"encoding/json"
	"flag"
	"fmt"
	"os"
	"os/exec"
	"path/filepath"
	"regexp"
	"sort"
	"strconv"
	"strings"
	"time"

	"gosym/interp"
	"gosym/load"
)

type TierSpec struct {
	Params       map[string]int `json:"params"`
	MaxPaths     int            `json:"max_paths"`
	MaxSteps     int64          `json:"max_steps"`
	MaxDecisions int            `json:"max_decisions"`
	Skip         bool           `json:"skip"`
	TimeoutS     int            `json:"timeout_s"`
}

type EntrySpec struct {
	Entry      string              `json:"entry"`
	Pkg        string              `json:"pkg"` // directory relative to /repo ("." for root)
	Tiers      map[string]TierSpec `json:"tiers"`
	Covers     []string            `json:"covers"`
	CountFiles bool                `json:"count_files"`
	CountCalls bool                `json:"count_calls"`
	Repeat     int                 `json:"native_repeat"` // native replays repeat the scenario (map order / schedules)
	Race       bool                `json:"native_race"`
	Note       string              `json:"note"`
	NoCross    bool                `json:"no_cross"`
	BudgetViolation bool           `json:"budget_is_violation"`
}

type CheckSpec struct {
	Title       string      `json:"title"`
	Entries     []EntrySpec `json:"entries"`
	Bounds      string      `json:"bounds"`
	Outside     string      `json:"outside"`
	Assumptions []string    `json:"assumptions"`
}

type KnownFinding struct {
	Property    string `json:"property"`
	ID          string `json:"id"`
	Description string `json:"description"`
	Witness     string `json:"witness"`
}

type KnownFile struct {
	Findings []KnownFinding `json:"findings"`
	Fixed    []string       `json:"fixed"`
}

type ReplayFile struct {
	Property string            `json:"property"`
	Entry    string            `json:"entry"`
	Pkg      string            `json:"pkg"`
	Label    string            `json:"label"`
	Known    []string          `json:"known"`
	Params   map[string]int    `json:"params"`
	Values   map[string]uint64 `json:"values"`
	Repeat   int               `json:"repeat"`
	Race     bool              `json:"race"`
	Kind     string            `json:"kind"` // "assert" | "panic" | "deadlock" | "budget"
	Detail   string            `json:"detail"`
	Readable map[string]string `json:"readable,omitempty"`
}

const verifDir = "/verif"

func readJSON(path string, v interface{}) error {
	data, err := os.ReadFile(path)
	if err != nil {
		return err
	}
	return json.Unmarshal(data, v)
}

func fatal(code int, format string, args ...interface{}) {
	fmt.Fprintf(os.Stderr, format+"\n", args...)
	os.Exit(code)
}

type entryOutcome struct {
	spec    EntrySpec
	sum     *interp.Summary
	params  map[string]int
	wall    float64
	skipped bool
}

func cmdCheck(args []string) {
	fs := flag.NewFlagSet("check", flag.ExitOnError)
	repo := fs.String("repo", "/repo", "repository")
	harness := fs.String("harness", verifDir+"/harness", "harness overlay directory")
	tier := fs.String("tier", "", "quick|thorough")
	workers := fs.Int("workers", 16, "workers")
	solver := fs.String("solver", "z3", "z3|z3-new|cvc5")
	only := fs.String("only", "", "run only this entry")
	noReplay := fs.Bool("no-replay", false, "skip native replays (debugging only; never exits 0/1)")
	evdir := fs.String("evidence", verifDir+"/evidence", "evidence directory")
	if len(args) < 1 {
		fatal(2, "usage: gosym check <Cxx> [--tier quick|thorough]")
	}
	prop := args[0]
	fs.Parse(args[1:])
	if *tier == "" {
		*tier = os.Getenv("VERIF_TIER")
	}
	if *tier == "" {
		*tier = "quick"
	}
	seed := 0
	if s := os.Getenv("VERIF_SEED"); s != "" {
		seed, _ = strconv.Atoi(s)
	}
	start := time.Now()

	var checks map[string]CheckSpec
	if err := readJSON(verifDir+"/checks.json", &checks); err != nil {
		fatal(2, "checks.json: %v", err)
	}
	spec, ok := checks[prop]
	if !ok {
		fatal(2, "no check registered for %s", prop)
	}
	var known KnownFile
	if err := readJSON(verifDir+"/known_findings.json", &known); err != nil && !os.IsNotExist(err) {
		fatal(2, "known_findings.json: %v", err)
	}
	knownIDs := map[string]KnownFinding{}
	for _, k := range known.Findings {
		if k.Property == prop {
			knownIDs[k.ID] = k
		}
	}

	ov, err := load.Overlay(*repo, *harness)
	if err != nil {
		fatal(2, "overlay: %v", err)
	}
	t0 := time.Now()
	l, err := load.Load(*repo, ov, "./...")
	if err != nil {
		// a harness that no longer compiles against the tree is a check error, not a pass
		fatal(2, "CHECK-ERROR property=%s: cannot load /repo with harness overlays:\n%v", prop, err)
	}
	loadS := time.Since(t0).Seconds()
	P := interp.NewProgram(l.Prog, repoPath)
	P.RepoDir = *repo

	var outcomes []entryOutcome
	for _, es := range spec.Entries {
		if *only != "" && es.Entry != *only {
			continue
		}
		ts, ok := es.Tiers[*tier]
		if !ok {
			ts = es.Tiers["quick"]
		}
		if ts.Skip {
			outcomes = append(outcomes, entryOutcome{spec: es, skipped: true})
			continue
		}
		fn := findEntry(l, es.Entry)
		if fn == nil {
			fatal(2, "CHECK-ERROR property=%s: harness entry %s not found", prop, es.Entry)
		}
		opt := interp.Options{Workers: *workers, MaxPaths: ts.MaxPaths, MaxSteps: ts.MaxSteps, MaxDecisions: ts.MaxDecisions,
			SolverKind: *solver, CountFiles: es.CountFiles, CountCalls: es.CountCalls, Params: ts.Params, Seed: seed, BudgetIsViolation: es.BudgetViolation}
		if ts.TimeoutS == 0 {
			// never hang: an exploration that does not finish is reported as incomplete (exit 2)
			ts.TimeoutS = 900
			if *tier == "thorough" {
				ts.TimeoutS = 10800
			}
		}
		opt.Deadline = time.Now().Add(time.Duration(ts.TimeoutS) * time.Second)
		e0 := time.Now()
		sum := interp.Explore(P, fn, opt)
		outcomes = append(outcomes, entryOutcome{spec: es, sum: sum, params: ts.Params, wall: time.Since(e0).Seconds()})
		fmt.Fprintf(os.Stderr, "[%s] %s: %d paths %v, %d violations, %d solver queries, %.1fs\n", prop, es.Entry, sum.Paths, sum.ByStatus, len(sum.Violations), sum.Solver.Queries, sum.Wall)
	}

	// ---- classify
	exit := 0
	var problems []string
	type vio struct {
		o   *entryOutcome
		v   interp.FoundViolation
		rep ReplayFile
	}
	var vios []vio
	for i := range outcomes {
		o := &outcomes[i]
		if o.skipped {
			continue
		}
		s := o.sum
		if s.Incomplete != "" {
			problems = append(problems, o.spec.Entry+": exploration incomplete: "+s.Incomplete)
		}
		for _, p := range s.Problems {
			problems = append(problems, o.spec.Entry+": "+p)
		}
		for _, c := range o.spec.Covers {
			if s.Covers[c] == 0 {
				problems = append(problems, o.spec.Entry+": vacuous: cover label "+c+" never reached")
			}
		}
		for _, v := range s.Violations {
			rep := ReplayFile{Property: prop, Entry: o.spec.Entry, Pkg: o.spec.Pkg, Label: v.Label, Known: v.Known, Params: o.params,
				Values: v.Model, Repeat: o.spec.Repeat, Race: o.spec.Race, Kind: "assert", Detail: v.Detail, Readable: readable(v)}
			vios = append(vios, vio{o, v, rep})
		}
		for _, pp := range s.PanicPaths {
			kind := "panic"
			if pp.Status == interp.PathDeadlock {
				kind = "deadlock"
			}
			if pp.Status == interp.PathBudget {
				kind = "budget"
			}
			rep := ReplayFile{Property: prop, Entry: o.spec.Entry, Pkg: o.spec.Pkg, Label: kind + " reached the harness entry: " + pp.Detail, Known: pp.Known,
				Params: o.params, Values: pp.Model, Repeat: o.spec.Repeat, Kind: kind, Detail: pp.Detail}
			vios = append(vios, vio{o, interp.FoundViolation{Label: rep.Label, Known: pp.Known, Model: pp.Model, Inputs: pp.Inputs}, rep})
		}
	}

	// native replay of every distinct (entry,label,known) violation
	replayDir := filepath.Join(verifDir, "replays", prop)
	os.MkdirAll(replayDir, 0o755)
	nReproduced, nUnreproduced, nKnown := 0, 0, 0
	knownPrinted := map[string]bool{}
	var violationLines []string
	seen := map[string]bool{}
	byPkg := map[string]*nativeBuild{}
	defer func() {
		for _, b := range byPkg {
			b.cleanup()
		}
	}()
	// Every distinct (entry,label,known) violation is replayed natively. A label
	// may have several counterexamples (different inputs / schedules); natively
	// only some of them are reproducible when the outcome depends on goroutine
	// scheduling, so up to maxTries of them are tried until one reproduces.
	const maxTries = 8
	tries := map[string]int{}
	unreproduced := map[string]string{}
	for i, v := range vios {
		key := v.rep.Entry + "|" + v.rep.Label + "|" + strings.Join(v.rep.Known, ",")
		if seen[key] || tries[key] >= maxTries {
			continue
		}
		tries[key]++
		path := filepath.Join(replayDir, fmt.Sprintf("%s-%d.json", v.rep.Entry, i))
		data, _ := json.MarshalIndent(v.rep, "", " ")
		os.WriteFile(path, data, 0o644)
		var kf *KnownFinding
		for _, id := range v.rep.Known {
			if k, ok := knownIDs[id]; ok {
				kf = &k
				break
			}
		}
		if *noReplay {
			fmt.Printf("UNCONFIRMED property=%s entry=%s label=%q replay=%s\n", prop, v.rep.Entry, v.rep.Label, path)
			exit = 2
			continue
		}
		bkey := v.rep.Pkg
		if v.rep.Race {
			bkey += "|race"
		}
		b := byPkg[bkey]
		if b == nil {
			b, err = buildNative(*repo, *harness, v.rep.Pkg, v.rep.Race)
			if err != nil {
				problems = append(problems, "native replay build failed: "+err.Error())
				exit = 2
				continue
			}
			byPkg[bkey] = b
		}
		res := b.run(path, v.rep)
		switch {
		case res.reproduced:
			seen[key] = true
			delete(unreproduced, key)
			nReproduced++
			if kf != nil {
				nKnown++
				if !knownPrinted[kf.ID] {
					knownPrinted[kf.ID] = true
					fmt.Printf("KNOWN-FINDING: property=%s %s: %s (label %q, replay %s)\n", prop, kf.ID, kf.Description, v.rep.Label, path)
				}
			} else {
				line := fmt.Sprintf("VIOLATION property=%s replay=%s", prop, path)
				violationLines = append(violationLines, line)
				fmt.Println(line)
				fmt.Printf("  entry=%s label=%q inputs=%v\n", v.rep.Entry, v.rep.Label, v.rep.Readable)
				exit = 1
			}
		default:
			unreproduced[key] = fmt.Sprintf("%s: counterexample for %q did not reproduce natively (%s): engine/stub mismatch or schedule not reached natively; replay %s", v.rep.Entry, v.rep.Label, res.text, path)
		}
	}
	for _, msg := range unreproduced {
		nUnreproduced++
		problems = append(problems, msg)
	}
	if len(problems) > 0 && exit == 0 {
		exit = 2
	}
	for _, p := range problems {
		fmt.Fprintln(os.Stderr, "PROBLEM:", p)
	}

	// ---- evidence
	writeEvidence(*evdir, prop, *tier, seed, spec, outcomes, problems, loadS, time.Since(start).Seconds(), nReproduced, nUnreproduced, nKnown, len(violationLines), *solver)
	if exit == 0 {
		fmt.Printf("OK property=%s tier=%s: all explored paths satisfy the property within the stated bounds\n", prop, *tier)
	} else if exit == 2 {
		fmt.Printf("INCONCLUSIVE property=%s tier=%s (see stderr)\n", prop, *tier)
	}
	os.Exit(exit)
}

// readable renders model values by input name, bytes grouped into strings.
func readable(v interp.FoundViolation) map[string]string {
	out := map[string]string{}
	groups := map[string]map[int]uint64{}
	re := regexp.MustCompile(`^(.*)_(\d+)$`)
	for _, in := range v.Inputs {
		val := v.Model[in.Name]
		if in.Kind == "byte" {
			if m := re.FindStringSubmatch(in.Name); m != nil {
				i, _ := strconv.Atoi(m[2])
				if groups[m[1]] == nil {
					groups[m[1]] = map[int]uint64{}
				}
				groups[m[1]][i] = val
				continue
			}
		}
		switch in.Kind {
		case "int", "int64", "choice":
			out[in.Name] = strconv.FormatInt(int64(val), 10)
		case "int32":
			out[in.Name] = strconv.FormatInt(int64(int32(val)), 10)
		case "float64bits":
			out[in.Name] = fmt.Sprintf("float64bits(%#x)", val)
		default:
			out[in.Name] = strconv.FormatUint(val, 10)
		}
	}
	for g, m := range groups {
		var idx []int
		for i := range m {
			idx = append(idx, i)
		}
		sort.Ints(idx)
		b := make([]byte, 0, len(idx))
		for _, i := range idx {
			b = append(b, byte(m[i]))
		}
		out[g] = strconv.Quote(string(b))
	}
	return out
}

// ------------------------------------------------------------------ native replay

type nativeBuild struct {
	dir  string
	bin  string
	pkg  string
	repo string
}

type nativeResult struct {
	reproduced bool
	text       string
}

var entryRe = regexp.MustCompile(`(?m)^func (ZZ_\w+)\(\)`)

func buildNative(repo, harnessDir, pkg string, race bool) (*nativeBuild, error) {
	work, err := os.MkdirTemp(verifDir+"/.work", "replay-")
	if err != nil {
		os.MkdirAll(verifDir+"/.work", 0o755)
		work, err = os.MkdirTemp(verifDir+"/.work", "replay-")
		if err != nil {
			return nil, err
		}
	}
	b := &nativeBuild{dir: work, pkg: pkg, repo: repo}
	sub := pkg
	if pkg == "." || pkg == "" {
		sub = "root"
	}
	src := filepath.Join(harnessDir, sub)
	files, _ := filepath.Glob(filepath.Join(src, "zz_verif_*.go"))
	if len(files) == 0 {
		return nil, fmt.Errorf("no harness files in %s", src)
	}
	repl := map[string]string{}
	var entries []string
	pkgName := ""
	for _, f := range files {
		data, err := os.ReadFile(f)
		if err != nil {
			return nil, err
		}
		if pkgName == "" {
			for _, line := range strings.Split(string(data), "\n") {
				if strings.HasPrefix(strings.TrimSpace(line), "package ") {
					pkgName = strings.Fields(line)[1]
					break
				}
			}
		}
		for _, m := range entryRe.FindAllStringSubmatch(string(data), -1) {
			entries = append(entries, m[1])
		}
		dst := filepath.Join(work, filepath.Base(f))
		os.WriteFile(dst, data, 0o644)
		repl[filepath.Join(repo, pkg, filepath.Base(f))] = dst
	}
	tmpl, err := os.ReadFile(filepath.Join(harnessDir, "common", "zz_native.go.tmpl"))
	if err != nil {
		return nil, err
	}
	intr := filepath.Join(work, "zz_verif_intrinsics.go")
	os.WriteFile(intr, []byte(strings.Replace(string(tmpl), "PKGNAME", pkgName, 1)), 0o644)
	repl[filepath.Join(repo, pkg, "zz_verif_intrinsics.go")] = intr
	var tb strings.Builder
	fmt.Fprintf(&tb, "package %s\n\nimport (\n\t\"fmt\"\n\t\"os\"\n\t\"strconv\"\n\t\"testing\"\n)\n\nvar zzEntries = map[string]func(){\n", pkgName)
	for _, e := range entries {
		fmt.Fprintf(&tb, "\t%q: %s,\n", e, e)
	}
	tb.WriteString(`}

func zzRunOnce(f func()) (res string) {
	defer func() {
		switch r := recover().(type) {
		case nil:
			res = "pass"
		case zzAssertFailed:
			res = "assert-failed " + r.Label
		case zzAssumeViolated:
			res = "assume-violated"
		default:
			res = fmt.Sprintf("panic %v", r)
		}
	}()
	f()
	return
}

func TestZZReplay(t *testing.T) {
	f := zzEntries[os.Getenv("ZZ_ENTRY")]
	if f == nil {
		t.Fatalf("no entry %q", os.Getenv("ZZ_ENTRY"))
	}
	n, _ := strconv.Atoi(os.Getenv("ZZ_REPEAT"))
	if n < 1 {
		n = 1
	}
	res := "pass"
	for i := 0; i < n; i++ {
		zzSt.digest = nil
		res = zzRunOnce(f)
		if res != "pass" {
			break
		}
	}
	for _, d := range zzSt.digest {
		fmt.Println("ZZ-DIGEST:", d)
	}
	fmt.Println("ZZ-RESULT:", res)
}
`)
	tf := filepath.Join(work, "zz_verif_replay_test.go")
	os.WriteFile(tf, []byte(tb.String()), 0o644)
	repl[filepath.Join(repo, pkg, "zz_verif_replay_test.go")] = tf
	ovj, _ := json.Marshal(map[string]interface{}{"Replace": repl})
	ovf := filepath.Join(work, "overlay.json")
	os.WriteFile(ovf, ovj, 0o644)
	b.bin = filepath.Join(work, "replay.test")
	args := []string{"test", "-vet=off", "-count=1", "-overlay", ovf, "-c", "-o", b.bin}
	if race {
		args = append(args, "-race")
	}
	args = append(args, "./"+pkg)
	cmd := exec.Command("go", args...)
	cmd.Dir = repo
	cmd.Env = append(os.Environ(), "GOFLAGS=-mod=mod", "GOPROXY=off", "GOSUMDB=off", "GOTOOLCHAIN=local")
	out, err := cmd.CombinedOutput()
	if err != nil {
		b.cleanup()
		return nil, fmt.Errorf("go test -c: %v\n%s", err, out)
	}
	return b, nil
}

func (b *nativeBuild) cleanup() {
	if b != nil && b.dir != "" {
		os.RemoveAll(b.dir)
	}
}

func (b *nativeBuild) run(replayPath string, rep ReplayFile) nativeResult {
	cmd := exec.Command(b.bin, "-test.run", "^TestZZReplay$", "-test.count=1", "-test.timeout=120s")
	cmd.Dir = filepath.Join(b.repo, b.pkg)
	rp := 1
	if rep.Repeat > 0 {
		rp = rep.Repeat
	}
	cmd.Env = append(os.Environ(), "ZZ_REPLAY="+replayPath, "ZZ_ENTRY="+rep.Entry, "ZZ_REPEAT="+strconv.Itoa(rp))
	out, _ := cmd.CombinedOutput()
	txt := string(out)
	if rep.Race && strings.Contains(txt, "DATA RACE") {
		return nativeResult{true, "race detector: DATA RACE reported"}
	}
	res := ""
	for _, line := range strings.Split(txt, "\n") {
		if strings.HasPrefix(line, "ZZ-RESULT: ") {
			res = strings.TrimPrefix(line, "ZZ-RESULT: ")
		}
	}
	if res == "" {
		// the test binary died: uncaught panic in another goroutine, deadlock, timeout, race report
		short := txt
		if len(short) > 600 {
			short = short[:600]
		}
		if rep.Kind == "panic" || rep.Kind == "deadlock" || rep.Kind == "budget" || strings.Contains(txt, "DATA RACE") {
			return nativeResult{true, "process died: " + short}
		}
		return nativeResult{strings.Contains(txt, "panic:") || strings.Contains(txt, "fatal error"), "process died: " + short}
	}
	switch {
	case strings.HasPrefix(res, "assert-failed"):
		return nativeResult{true, res}
	case strings.HasPrefix(res, "panic"):
		return nativeResult{true, res}
	}
	return nativeResult{false, res}
}

func cmdReplay(args []string) {
	if len(args) < 1 {
		fatal(2, "usage: gosym replay <replay.json>")
	}
	var rep ReplayFile
	if err := readJSON(args[0], &rep); err != nil {
		fatal(2, "%v", err)
	}
	b, err := buildNative("/repo", verifDir+"/harness", rep.Pkg, rep.Race)
	if err != nil {
		fatal(2, "%v", err)
	}
	defer b.cleanup()
	abs, _ := filepath.Abs(args[0])
	res := b.run(abs, rep)
	fmt.Printf("replay %s entry=%s label=%q -> reproduced=%v (%s)\n", args[0], rep.Entry, rep.Label, res.reproduced, res.text)
	if res.reproduced {
		b.cleanup()
		os.Exit(1)
	}
}
