package main

import (
	"sort"
	"encoding/json"
	"flag"
	"fmt"
	"os"
	"runtime/pprof"
	"strconv"
	"strings"
	"time"

	"golang.org/x/tools/go/ssa"

	"gosym/interp"
	"gosym/load"
)

const repoPath = "github.com/graphql-go/graphql"

func findEntry(l *load.Loaded, name string) *ssa.Function {
	for _, p := range l.Prog.AllPackages() {
		if !strings.HasPrefix(p.Pkg.Path(), repoPath) {
			continue
		}
		if f := p.Func(name); f != nil {
			return f
		}
	}
	return nil
}

func main() {
	if len(os.Args) < 2 {
		fmt.Fprintln(os.Stderr, "usage: gosym run|check|replay|selftest ...")
		os.Exit(2)
	}
	switch os.Args[1] {
	case "run":
		cmdRun(os.Args[2:])
	case "check":
		cmdCheck(os.Args[2:])
	case "replay":
		cmdReplay(os.Args[2:])
	case "selftest":
		cmdSelfTest()
	default:
		fmt.Fprintln(os.Stderr, "unknown command", os.Args[1])
		os.Exit(2)
	}
}

func cmdRun(args []string) {
	fs := flag.NewFlagSet("run", flag.ExitOnError)
	repo := fs.String("repo", "/repo", "repository")
	harness := fs.String("harness", "/verif/harness", "harness overlay directory")
	entry := fs.String("entry", "", "harness entry function")
	workers := fs.Int("workers", 16, "workers")
	maxPaths := fs.Int("max-paths", 0, "path budget")
	maxSteps := fs.Int64("max-steps", 0, "instruction budget per path")
	trace := fs.Bool("trace", false, "trace calls")
	solver := fs.String("solver", "z3", "z3|z3-new|cvc5")
	countFiles := fs.Bool("count-files", false, "attribute steps to files")
	cpuprof := fs.String("cpuprofile", "", "write cpu profile")
	forkSites := fs.Bool("fork-sites", false, "histogram of source lines where paths fork")
	params := fs.String("params", "", "k=v,k=v harness parameters")
	fs.Parse(args)
	ov, err := load.Overlay(*repo, *harness)
	if err != nil {
		fmt.Fprintln(os.Stderr, err)
		os.Exit(2)
	}
	t0 := time.Now()
	l, err := load.Load(*repo, ov, "./...")
	if err != nil {
		fmt.Fprintln(os.Stderr, err)
		os.Exit(2)
	}
	fmt.Fprintf(os.Stderr, "loaded in %.1fs\n", time.Since(t0).Seconds())
	fn := findEntry(l, *entry)
	if fn == nil {
		fmt.Fprintln(os.Stderr, "no such entry:", *entry)
		os.Exit(2)
	}
	P := interp.NewProgram(l.Prog, repoPath)
	P.RepoDir = *repo
	if *cpuprof != "" {
		f, _ := os.Create(*cpuprof)
		pprof.StartCPUProfile(f)
		defer pprof.StopCPUProfile()
	}
	pm := map[string]int{}
	for _, kv := range strings.Split(*params, ",") {
		if i := strings.Index(kv, "="); i > 0 {
			n, _ := strconv.Atoi(kv[i+1:])
			pm[kv[:i]] = n
		}
	}
	if os.Getenv("GOSYM_REGSTAT") != "" {
		interp.RegStat = map[string]int64{}
	}
	sum := interp.Explore(P, fn, interp.Options{Workers: *workers, MaxPaths: *maxPaths, MaxSteps: *maxSteps, Trace: *trace, SolverKind: *solver, CountFiles: *countFiles, Params: pm, ForkSites: *forkSites})
	if interp.RegStat != nil {
		type kv struct {
			k string
			v int64
		}
		var l []kv
		for k, v := range interp.RegStat {
			l = append(l, kv{k, v})
		}
		sort.Slice(l, func(i, j int) bool { return l[i].v > l[j].v })
		for i := 0; i < len(l) && i < 15; i++ {
			fmt.Fprintln(os.Stderr, "regstat", l[i].v, l[i].k)
		}
	}
	sum.Funcs = nil
	if len(sum.Samples) > 3 {
		sum.Samples = sum.Samples[:3]
	}
	out, _ := json.MarshalIndent(sum, "", " ")
	fmt.Println(string(out))
}

func cmdSelfTest() {
	l, err := load.Load("/repo", nil, "./language/lexer")
	if err != nil {
		fmt.Fprintln(os.Stderr, err)
		os.Exit(2)
	}
	P := interp.NewProgram(l.Prog, repoPath)
	n, bad := interp.SelfTest(P)
	for _, b := range bad {
		fmt.Println("SELFTEST MISMATCH:", b)
	}
	fmt.Printf("selftest: %d model/real comparisons, %d mismatches\n", n, len(bad))
	if len(bad) > 0 {
		os.Exit(2)
	}
}
