package main

import (
	"fmt"
	"os"
	"sort"

	"golang.org/x/tools/go/packages"
	"golang.org/x/tools/go/ssa"
	"golang.org/x/tools/go/ssa/ssautil"
)

func main() {
	cfg := &packages.Config{Mode: packages.LoadAllSyntax, Dir: "/repo", Env: append(os.Environ(), "GOFLAGS=-mod=mod", "GOPROXY=off")}
	pkgs, err := packages.Load(cfg, "./...")
	if err != nil {
		panic(err)
	}
	prog, spkgs := ssautil.AllPackages(pkgs, ssa.InstantiateGenerics)
	prog.Build()
	_ = spkgs
	repo := map[*ssa.Package]bool{}
	for _, p := range prog.AllPackages() {
		if len(p.Pkg.Path()) >= 29 && p.Pkg.Path()[:29] == "github.com/graphql-go/graphql" {
			pp := p.Pkg.Path()
			if len(pp) > 29 && (pp[29:] == "/examples" || len(pp) > 38 && pp[29:38] == "/examples") {
				continue
			}
			if len(pp) > 29 && (pp[30:] == "benchutil" || pp[30:] == "testutil") {
				continue
			}
			repo[p] = true
		}
	}
	counts := map[string]int{}
	var visit func(fn *ssa.Function)
	seen := map[*ssa.Function]bool{}
	visit = func(fn *ssa.Function) {
		if seen[fn] {
			return
		}
		seen[fn] = true
		for _, b := range fn.Blocks {
			for _, in := range b.Instrs {
				var cc *ssa.CallCommon
				switch in := in.(type) {
				case *ssa.Call:
					cc = &in.Call
				case *ssa.Go:
					cc = &in.Call
				case *ssa.Defer:
					cc = &in.Call
				case *ssa.MakeClosure:
					visit(in.Fn.(*ssa.Function))
				}
				if cc == nil {
					continue
				}
				if cc.Method != nil {
					if cc.Method.Pkg() != nil {
						n := "iface:" + cc.Method.FullName()
						if p := prog.Package(cc.Method.Pkg()); p == nil || !repo[p] {
							counts[n]++
						}
					}
					continue
				}
				if callee := cc.StaticCallee(); callee != nil {
					if callee.Pkg != nil && repo[callee.Pkg] {
						continue
					}
					if callee.Pkg == nil && callee.Origin() != nil && callee.Origin().Pkg != nil && repo[callee.Origin().Pkg] {
						continue
					}
					counts[callee.String()]++
				}
			}
		}
		for _, a := range fn.AnonFuncs {
			visit(a)
		}
	}
	for p := range repo {
		for _, m := range p.Members {
			switch m := m.(type) {
			case *ssa.Function:
				visit(m)
			case *ssa.Type:
				for _, T := range []interface{ String() string }{m.Type()} {
					_ = T
				}
				ms := prog.MethodSets.MethodSet(m.Type())
				for i := 0; i < ms.Len(); i++ {
					if f := prog.MethodValue(ms.At(i)); f != nil {
						visit(f)
					}
				}
				// pointer receiver
			}
		}
	}
	for f := range ssautil.AllFunctions(prog) {
		if f.Pkg != nil && repo[f.Pkg] {
			visit(f)
		}
	}
	var names []string
	for n := range counts {
		names = append(names, n)
	}
	sort.Strings(names)
	for _, n := range names {
		fmt.Printf("%4d %s\n", counts[n], n)
	}
}
