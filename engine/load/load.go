// Package load builds the SSA program for /repo plus harness overlays.
package load

import (
	"fmt"
	"os"
	"path/filepath"
	"strings"

	"golang.org/x/tools/go/packages"
	"golang.org/x/tools/go/ssa"
	"golang.org/x/tools/go/ssa/ssautil"
)

type Loaded struct {
	Prog *ssa.Program
	Pkgs []*ssa.Package
	Repo string
}

// Load type-checks the packages matching patterns under repoDir with the given
// overlay (virtual path -> content) and builds SSA for everything.
func Load(repoDir string, overlay map[string][]byte, patterns ...string) (*Loaded, error) {
	cfg := &packages.Config{
		Mode:    packages.LoadAllSyntax,
		Dir:     repoDir,
		Env:     append(os.Environ(), "GOFLAGS=-mod=mod", "GOPROXY=off", "GOSUMDB=off", "GOTOOLCHAIN=local"),
		Overlay: overlay,
	}
	pkgs, err := packages.Load(cfg, patterns...)
	if err != nil {
		return nil, err
	}
	var errs []string
	packages.Visit(pkgs, nil, func(p *packages.Package) {
		for _, e := range p.Errors {
			errs = append(errs, e.Error())
		}
	})
	if len(errs) > 0 {
		if len(errs) > 20 {
			errs = errs[:20]
		}
		return nil, fmt.Errorf("load errors:\n%s", strings.Join(errs, "\n"))
	}
	prog, spkgs := ssautil.AllPackages(pkgs, ssa.InstantiateGenerics)
	prog.Build()
	return &Loaded{Prog: prog, Pkgs: spkgs, Repo: repoDir}, nil
}

// Overlay maps every file of harnessDir/<sub>/zz_verif_*.go to repoDir/<sub>/<file>.
// The sub directory "root" maps to repoDir itself.
func Overlay(repoDir, harnessDir string) (map[string][]byte, error) {
	ov := map[string][]byte{}
	err := filepath.Walk(harnessDir, func(path string, info os.FileInfo, err error) error {
		if err != nil {
			return err
		}
		if info.IsDir() || !strings.HasSuffix(path, ".go") {
			return nil
		}
		rel, _ := filepath.Rel(harnessDir, path)
		parts := strings.Split(rel, string(filepath.Separator))
		if parts[0] == "root" {
			parts = parts[1:]
		}
		data, err := os.ReadFile(path)
		if err != nil {
			return err
		}
		if parts[0] == "common" {
			return nil
		}
		dst := filepath.Join(append([]string{repoDir}, parts...)...)
		ov[dst] = data
		dir := filepath.Dir(dst)
		if _, ok := ov[filepath.Join(dir, "zz_verif_intrinsics.go")]; !ok {
			pkg := packageName(data)
			tmpl, err := os.ReadFile(filepath.Join(harnessDir, "common", "zz_native.go.tmpl"))
			if err != nil {
				return err
			}
			ov[filepath.Join(dir, "zz_verif_intrinsics.go")] = []byte(strings.Replace(string(tmpl), "PKGNAME", pkg, 1))
		}
		return nil
	})
	return ov, err
}

func packageName(src []byte) string {
	for _, line := range strings.Split(string(src), "\n") {
		line = strings.TrimSpace(line)
		if strings.HasPrefix(line, "package ") {
			return strings.Fields(line)[1]
		}
	}
	return "main"
}
