package sym

import (
	"bufio"
	"fmt"
	"io"
	"os"
	"os/exec"
	"strconv"
	"strings"
	"time"
)

type Result int

const (
	Unknown Result = iota
	Sat
	Unsat
)

func (r Result) String() string {
	switch r {
	case Sat:
		return "sat"
	case Unsat:
		return "unsat"
	}
	return "unknown"
}

// Solver is one long-lived SMT solver process talking SMT-LIB2 over a pipe.
type Solver struct {
	Kind    string // "z3", "z3-new", "cvc5"
	cmd     *exec.Cmd
	in      io.WriteCloser
	out     *bufio.Reader
	printer *Printer
	buf     strings.Builder
	depth   int

	Queries   int
	NSat      int
	NUnsat    int
	NUnknown  int
	Errors    int
	Seconds   float64
	TimeoutMS int
	pending   []*Term // assertions not yet sent
	dirty     bool    // something was sent since the last reset
	Log       io.Writer
	LastError string
}

func NewSolver(kind string, timeoutMS int) (*Solver, error) {
	var cmd *exec.Cmd
	switch kind {
	case "z3":
		cmd = exec.Command("z3", "-in", fmt.Sprintf("-t:%d", timeoutMS))
	case "z3-new":
		cmd = exec.Command("z3-new", "-in", fmt.Sprintf("-t:%d", timeoutMS))
	case "cvc5":
		cmd = exec.Command("cvc5", "--incremental", "--lang=smt2", "--produce-models", fmt.Sprintf("--tlimit-per=%d", timeoutMS))
	default:
		return nil, fmt.Errorf("unknown solver %q", kind)
	}
	in, err := cmd.StdinPipe()
	if err != nil {
		return nil, err
	}
	out, err := cmd.StdoutPipe()
	if err != nil {
		return nil, err
	}
	cmd.Stderr = cmd.Stdout
	if err := cmd.Start(); err != nil {
		return nil, err
	}
	s := &Solver{Kind: kind, cmd: cmd, in: in, out: bufio.NewReaderSize(out, 1<<16), printer: NewPrinter(), TimeoutMS: timeoutMS}
	if lp := os.Getenv("GOSYM_SOLVER_LOG"); lp != "" {
		f, _ := os.OpenFile(fmt.Sprintf("%s.%d.%s", lp, cmd.Process.Pid, kind), os.O_CREATE|os.O_WRONLY|os.O_TRUNC, 0o644)
		s.Log = f
	}
	s.preamble()
	return s, nil
}

func (s *Solver) preamble() {
	if s.Kind == "cvc5" {
		s.send("(set-logic ALL)\n(set-option :produce-models true)\n")
	} else {
		s.send("(set-option :produce-models true)\n")
	}
}

func (s *Solver) send(txt string) {
	if s.Log != nil {
		io.WriteString(s.Log, txt)
	}
	io.WriteString(s.in, txt)
}

func (s *Solver) Close() {
	if s == nil || s.cmd == nil {
		return
	}
	s.in.Close()
	s.cmd.Process.Kill()
	s.cmd.Wait()
	s.cmd = nil
}

// Reset clears all assertions and definitions.
func (s *Solver) Reset() {
	s.pending = s.pending[:0]
	s.buf.Reset()
	if !s.dirty {
		return
	}
	s.send("(reset)\n")
	s.preamble()
	s.printer.Reset()
	s.depth = 0
	s.dirty = false
}

func (s *Solver) flush() {
	for _, t := range s.pending {
		r := s.printer.Define(&s.buf, t)
		fmt.Fprintf(&s.buf, "(assert %s)\n", r)
	}
	s.pending = s.pending[:0]
	if s.buf.Len() > 0 {
		s.send(s.buf.String())
		s.buf.Reset()
		s.dirty = true
	}
}

// Assert adds t to the current assertion set (formatted and sent lazily, at the next check).
func (s *Solver) Assert(t *Term) {
	s.pending = append(s.pending, t)
}

func (s *Solver) readLine() (string, error) {
	line, err := s.out.ReadString('\n')
	return strings.TrimSpace(line), err
}

// sync sends an echo marker and reads until it appears, returning the lines before it.
func (s *Solver) roundTrip(cmds string) ([]string, error) {
	s.flush()
	s.send(cmds + "(echo \"@@done\")\n")
	var lines []string
	for {
		l, err := s.readLine()
		if err != nil {
			return lines, err
		}
		if l == "@@done" || l == "\"@@done\"" {
			return lines, nil
		}
		if l != "" {
			lines = append(lines, l)
		}
	}
}

// Check decides satisfiability of the current assertions plus extra (which is
// asserted in a temporary scope). If vars is non-nil and the result is Sat, the
// model values of those variables are returned.
func (s *Solver) Check(extra *Term, vars []*Term) (Result, map[string]uint64) {
	start := time.Now()
	defer func() {
		d := time.Since(start).Seconds()
		s.Seconds += d
		if s.Log != nil {
			fmt.Fprintf(s.Log, "; query took %.4fs\n", d)
		}
	}()
	s.Queries++
	s.flush()
	s.dirty = true
	var sb strings.Builder
	scoped := extra != nil
	if scoped {
		r := s.printer.Define(&s.buf, extra)
		fmt.Fprintf(&sb, "(push 1)\n(assert %s)\n", r)
	}
	// make sure all requested vars are declared
	for _, v := range vars {
		s.printer.Define(&s.buf, v)
	}
	sb.WriteString("(check-sat)\n")
	lines, err := s.roundTrip(sb.String())
	res := Unknown
	bad := err != nil
	for _, l := range lines {
		switch {
		case l == "sat":
			res = Sat
		case l == "unsat":
			res = Unsat
		case l == "unknown" || l == "timeout":
			res = Unknown
		case strings.HasPrefix(l, "(error"):
			bad = true
			s.LastError = l
		}
	}
	if bad {
		s.Errors++
		res = Unknown
	}
	var model map[string]uint64
	if res == Sat && len(vars) > 0 {
		var q2 strings.Builder
		q2.WriteString("(get-value (")
		for _, v := range vars {
			q2.WriteString(v.Name)
			q2.WriteByte(' ')
		}
		q2.WriteString("))\n")
		ml, err := s.roundTrip(q2.String())
		if err != nil {
			res = Unknown
			s.Errors++
		} else {
			model = parseModel(strings.Join(ml, " "))
			for _, l := range ml {
				if strings.HasPrefix(l, "(error") {
					s.Errors++
					s.LastError = l
					res = Unknown
				}
			}
		}
	}
	if scoped {
		s.send("(pop 1)\n")
	}
	switch res {
	case Sat:
		s.NSat++
	case Unsat:
		s.NUnsat++
	default:
		s.NUnknown++
	}
	return res, model
}

// parseModel parses "((x #x01) (y true) (z #b1) ...)".
func parseModel(txt string) map[string]uint64 {
	m := map[string]uint64{}
	txt = strings.ReplaceAll(txt, "(", " ( ")
	txt = strings.ReplaceAll(txt, ")", " ) ")
	f := strings.Fields(txt)
	for i := 0; i+2 < len(f); i++ {
		if f[i] == "(" && f[i+1] != "(" && f[i+2] != "(" && f[i+2] != ")" {
			name, val := f[i+1], f[i+2]
			switch {
			case val == "true":
				m[name] = 1
			case val == "false":
				m[name] = 0
			case strings.HasPrefix(val, "#x"):
				u, _ := strconv.ParseUint(val[2:], 16, 64)
				m[name] = u
			case strings.HasPrefix(val, "#b"):
				u, _ := strconv.ParseUint(val[2:], 2, 64)
				m[name] = u
			}
		}
	}
	return m
}
