// Package sym implements the term language of gosym: hash-consed
// bit-vector / boolean / floating-point terms with constant folding,
// a concrete evaluator and an SMT-LIB2 printer.
package sym

import (
	"fmt"
	"math"
	"math/bits"
	"strings"
)

type Sort uint8

const (
	Bool Sort = iota
	BV8
	BV16
	BV32
	BV64
	F32
	F64
)

func (s Sort) Bits() int {
	switch s {
	case Bool:
		return 1
	case BV8:
		return 8
	case BV16:
		return 16
	case BV32, F32:
		return 32
	}
	return 64
}

func (s Sort) IsBV() bool { return s >= BV8 && s <= BV64 }
func (s Sort) IsFP() bool { return s == F32 || s == F64 }

func (s Sort) SMT() string {
	switch s {
	case Bool:
		return "Bool"
	case BV8:
		return "(_ BitVec 8)"
	case BV16:
		return "(_ BitVec 16)"
	case BV32:
		return "(_ BitVec 32)"
	case BV64:
		return "(_ BitVec 64)"
	case F32:
		return "(_ FloatingPoint 8 24)"
	case F64:
		return "(_ FloatingPoint 11 53)"
	}
	panic("bad sort")
}

func BVSort(bits int) Sort {
	switch bits {
	case 8:
		return BV8
	case 16:
		return BV16
	case 32:
		return BV32
	case 64:
		return BV64
	}
	panic(fmt.Sprintf("no bv sort of %d bits", bits))
}

type Op uint8

const (
	OpConst Op = iota
	OpVar
	OpNot
	OpAnd
	OpOr
	OpEq
	OpIte
	OpAdd
	OpSub
	OpMul
	OpUDiv
	OpSDiv
	OpURem
	OpSRem
	OpBAnd
	OpBOr
	OpBXor
	OpShl
	OpLShr
	OpAShr
	OpNeg
	OpBNot
	OpULt
	OpULe
	OpSLt
	OpSLe
	OpZExt
	OpSExt
	OpTrunc
	OpFAdd
	OpFSub
	OpFMul
	OpFDiv
	OpFNeg
	OpFLt
	OpFLe
	OpFEq
	OpFIsNaN
	OpSIToFP
	OpUIToFP
	OpFPToSI
	OpFPToUI
	OpFPToFP
	OpBitsToFP // reinterpret a BV32/BV64 as F32/F64
)

var opNames = map[Op]string{
	OpNot: "not", OpAnd: "and", OpOr: "or", OpEq: "=", OpIte: "ite",
	OpAdd: "bvadd", OpSub: "bvsub", OpMul: "bvmul", OpUDiv: "bvudiv", OpSDiv: "bvsdiv",
	OpURem: "bvurem", OpSRem: "bvsrem", OpBAnd: "bvand", OpBOr: "bvor", OpBXor: "bvxor",
	OpShl: "bvshl", OpLShr: "bvlshr", OpAShr: "bvashr", OpNeg: "bvneg", OpBNot: "bvnot",
	OpULt: "bvult", OpULe: "bvule", OpSLt: "bvslt", OpSLe: "bvsle",
	OpFAdd: "fp.add RNE", OpFSub: "fp.sub RNE", OpFMul: "fp.mul RNE", OpFDiv: "fp.div RNE",
	OpFNeg: "fp.neg", OpFLt: "fp.lt", OpFLe: "fp.leq", OpFEq: "fp.eq", OpFIsNaN: "fp.isNaN",
}

type Term struct {
	Op   Op
	Sort Sort
	Args []*Term
	Val  uint64 // constant bits (BV: zero-extended value; FP: IEEE bits; Bool: 0/1)
	Name string // variable name
	ID   int
}

func (t *Term) IsConst() bool { return t.Op == OpConst }

// Ctx is a hash-consing term factory. Not safe for concurrent use.
type termKey struct {
	op         Op
	sort       Sort
	val        uint64
	name       string
	a0, a1, a2 int
}

type Ctx struct {
	tab   map[termKey]*Term
	next  int
	Vars  []*Term // in creation order
	varBy map[string]*Term
	True  *Term
	False *Term
}

func NewCtx() *Ctx {
	c := &Ctx{tab: map[termKey]*Term{}, varBy: map[string]*Term{}}
	c.True = c.Const(Bool, 1)
	c.False = c.Const(Bool, 0)
	return c
}

func mask(s Sort) uint64 {
	b := s.Bits()
	if b >= 64 {
		return ^uint64(0)
	}
	return (uint64(1) << uint(b)) - 1
}

func (c *Ctx) intern(t *Term) *Term {
	if len(t.Args) > 3 {
		panic("sym: more than 3 args")
	}
	k := termKey{op: t.Op, sort: t.Sort, val: t.Val, name: t.Name}
	switch len(t.Args) {
	case 3:
		k.a2 = t.Args[2].ID
		fallthrough
	case 2:
		k.a1 = t.Args[1].ID
		fallthrough
	case 1:
		k.a0 = t.Args[0].ID
	}
	if old, ok := c.tab[k]; ok {
		return old
	}
	c.next++
	t.ID = c.next
	c.tab[k] = t
	return t
}

func (c *Ctx) Const(s Sort, v uint64) *Term {
	return c.intern(&Term{Op: OpConst, Sort: s, Val: v & mask(s)})
}

func (c *Ctx) Bool(b bool) *Term {
	if b {
		return c.True
	}
	return c.False
}

func (c *Ctx) Var(s Sort, name string) *Term {
	if v, ok := c.varBy[name]; ok {
		if v.Sort != s {
			panic("sym: variable " + name + " redeclared with another sort")
		}
		return v
	}
	v := c.intern(&Term{Op: OpVar, Sort: s, Name: name})
	c.varBy[name] = v
	c.Vars = append(c.Vars, v)
	return v
}

func (c *Ctx) LookupVar(name string) *Term { return c.varBy[name] }

func allConst(args []*Term) bool {
	for _, a := range args {
		if a.Op != OpConst {
			return false
		}
	}
	return true
}

// mk builds a term of the given op/sort, folding constants.
func (c *Ctx) mk(op Op, s Sort, args ...*Term) *Term {
	t := &Term{Op: op, Sort: s, Args: args}
	if allConst(args) {
		v := evalNode(t, func(a *Term) uint64 { return a.Val })
		return c.Const(s, v)
	}
	return c.intern(t)
}

func (c *Ctx) Not(a *Term) *Term {
	if a.Op == OpConst {
		return c.Bool(a.Val == 0)
	}
	if a.Op == OpNot {
		return a.Args[0]
	}
	return c.mk(OpNot, Bool, a)
}

func (c *Ctx) And(a, b *Term) *Term {
	if a.Op == OpConst {
		if a.Val == 0 {
			return c.False
		}
		return b
	}
	if b.Op == OpConst {
		if b.Val == 0 {
			return c.False
		}
		return a
	}
	if a == b {
		return a
	}
	return c.mk(OpAnd, Bool, a, b)
}

func (c *Ctx) Or(a, b *Term) *Term {
	if a.Op == OpConst {
		if a.Val != 0 {
			return c.True
		}
		return b
	}
	if b.Op == OpConst {
		if b.Val != 0 {
			return c.True
		}
		return a
	}
	if a == b {
		return a
	}
	return c.mk(OpOr, Bool, a, b)
}

func (c *Ctx) Eq(a, b *Term) *Term {
	if a.Sort != b.Sort {
		panic(fmt.Sprintf("sym.Eq: sort mismatch %v %v", a.Sort, b.Sort))
	}
	if a.Sort.IsFP() {
		panic("sym.Eq on FP; use FEq")
	}
	if a == b {
		return c.True
	}
	if a.Sort == Bool {
		if a.Op == OpConst {
			if a.Val != 0 {
				return b
			}
			return c.Not(b)
		}
		if b.Op == OpConst {
			if b.Val != 0 {
				return a
			}
			return c.Not(a)
		}
	}
	// (zext x) == const  ->  x == const' or false
	if b.Op == OpConst && (a.Op == OpZExt) {
		in := a.Args[0]
		if b.Val&^mask(in.Sort) != 0 {
			return c.False
		}
		return c.Eq(in, c.Const(in.Sort, b.Val))
	}
	if a.Op == OpConst && (b.Op == OpZExt) {
		return c.Eq(b, a)
	}
	if a.Op == OpConst && b.Op != OpConst {
		a, b = b, a
	}
	// ite(c, k1, k2) == k  with constants
	if b.Op == OpConst && a.Op == OpIte && a.Args[1].Op == OpConst && a.Args[2].Op == OpConst {
		t1 := a.Args[1].Val == b.Val
		t2 := a.Args[2].Val == b.Val
		switch {
		case t1 && t2:
			return c.True
		case t1:
			return a.Args[0]
		case t2:
			return c.Not(a.Args[0])
		default:
			return c.False
		}
	}
	return c.mk(OpEq, Bool, a, b)
}

func (c *Ctx) Ite(cond, a, b *Term) *Term {
	if a.Sort != b.Sort {
		panic("sym.Ite: sort mismatch")
	}
	if cond.Op == OpConst {
		if cond.Val != 0 {
			return a
		}
		return b
	}
	if a == b {
		return a
	}
	if a.Sort == Bool {
		if a.Op == OpConst && b.Op == OpConst {
			if a.Val != 0 {
				return cond
			}
			return c.Not(cond)
		}
		if a.Op == OpConst {
			if a.Val != 0 {
				return c.Or(cond, b)
			}
			return c.And(c.Not(cond), b)
		}
		if b.Op == OpConst {
			if b.Val != 0 {
				return c.Or(c.Not(cond), a)
			}
			return c.And(cond, a)
		}
	}
	return c.mk(OpIte, a.Sort, cond, a, b)
}

// Bin builds a binary bit-vector / fp operation (same-sort operands).
func (c *Ctx) Bin(op Op, a, b *Term) *Term {
	if a.Sort != b.Sort {
		panic(fmt.Sprintf("sym.Bin(%v): sort mismatch %v %v", op, a.Sort, b.Sort))
	}
	s := a.Sort
	switch op {
	case OpULt, OpULe, OpSLt, OpSLe, OpFLt, OpFLe, OpFEq:
		s = Bool
	}
	// a few cheap identities
	switch op {
	case OpAdd, OpBOr, OpBXor:
		if a.Op == OpConst && a.Val == 0 {
			return b
		}
		if b.Op == OpConst && b.Val == 0 {
			return a
		}
	case OpSub, OpShl, OpLShr, OpAShr:
		if b.Op == OpConst && b.Val == 0 {
			return a
		}
	case OpMul:
		if a.Op == OpConst && a.Val == 1 {
			return b
		}
		if b.Op == OpConst && b.Val == 1 {
			return a
		}
	case OpBAnd:
		if a.Op == OpConst && a.Val == mask(a.Sort) {
			return b
		}
		if b.Op == OpConst && b.Val == mask(b.Sort) {
			return a
		}
	case OpULt:
		// zext(x) < const
		if b.Op == OpConst && a.Op == OpZExt {
			in := a.Args[0]
			if b.Val > mask(in.Sort) {
				return c.True
			}
			return c.Bin(OpULt, in, c.Const(in.Sort, b.Val))
		}
	case OpULe:
		if b.Op == OpConst && a.Op == OpZExt {
			in := a.Args[0]
			if b.Val >= mask(in.Sort) {
				return c.True
			}
			return c.Bin(OpULe, in, c.Const(in.Sort, b.Val))
		}
	}
	return c.mk(op, s, a, b)
}

func (c *Ctx) Un(op Op, a *Term) *Term {
	s := a.Sort
	if op == OpFIsNaN {
		s = Bool
		// an integer converted to floating point is never NaN
		if a.Op == OpSIToFP || a.Op == OpUIToFP {
			return c.False
		}
		if a.Op == OpFPToFP && (a.Args[0].Op == OpSIToFP || a.Args[0].Op == OpUIToFP) {
			return c.False
		}
	}
	return c.mk(op, s, a)
}

// Conv builds a conversion: OpZExt, OpSExt, OpTrunc, OpSIToFP, OpUIToFP,
// OpFPToSI, OpFPToUI, OpFPToFP.
func (c *Ctx) Conv(op Op, to Sort, a *Term) *Term {
	if a.Sort == to && (op == OpZExt || op == OpSExt || op == OpTrunc || op == OpFPToFP) {
		return a
	}
	if op == OpTrunc && (a.Op == OpZExt || a.Op == OpSExt) {
		in := a.Args[0]
		if in.Sort == to {
			return in
		}
		if in.Sort.Bits() > to.Bits() {
			return c.Conv(OpTrunc, to, in)
		}
		return c.Conv(a.Op, to, in)
	}
	if op == OpZExt && a.Op == OpZExt {
		return c.Conv(OpZExt, to, a.Args[0])
	}
	return c.mk(op, to, a)
}

func sext(v uint64, bitsN int) int64 {
	if bitsN >= 64 {
		return int64(v)
	}
	sh := uint(64 - bitsN)
	return int64(v<<sh) >> sh
}

func fval(t *Term, v uint64) float64 {
	if t.Sort == F32 {
		return float64(math.Float32frombits(uint32(v)))
	}
	return math.Float64frombits(v)
}

func fbits(s Sort, f float64) uint64 {
	if s == F32 {
		return uint64(math.Float32bits(float32(f)))
	}
	return math.Float64bits(f)
}

func b2u(b bool) uint64 {
	if b {
		return 1
	}
	return 0
}

// evalNode evaluates one node given a function yielding the values of its args.
func evalNode(t *Term, get func(*Term) uint64) uint64 {
	m := mask(t.Sort)
	a := t.Args
	switch t.Op {
	case OpConst:
		return t.Val
	case OpNot:
		return b2u(get(a[0]) == 0)
	case OpAnd:
		return b2u(get(a[0]) != 0 && get(a[1]) != 0)
	case OpOr:
		return b2u(get(a[0]) != 0 || get(a[1]) != 0)
	case OpEq:
		return b2u(get(a[0]) == get(a[1]))
	case OpIte:
		if get(a[0]) != 0 {
			return get(a[1])
		}
		return get(a[2])
	case OpAdd:
		return (get(a[0]) + get(a[1])) & m
	case OpSub:
		return (get(a[0]) - get(a[1])) & m
	case OpMul:
		return (get(a[0]) * get(a[1])) & m
	case OpUDiv:
		y := get(a[1])
		if y == 0 {
			return m
		}
		return get(a[0]) / y
	case OpURem:
		y := get(a[1])
		if y == 0 {
			return get(a[0])
		}
		return get(a[0]) % y
	case OpSDiv:
		n := t.Sort.Bits()
		x, y := sext(get(a[0]), n), sext(get(a[1]), n)
		if y == 0 {
			if x < 0 {
				return 1
			}
			return m
		}
		if y == -1 {
			return uint64(-x) & m
		}
		return uint64(x/y) & m
	case OpSRem:
		n := t.Sort.Bits()
		x, y := sext(get(a[0]), n), sext(get(a[1]), n)
		if y == 0 {
			return uint64(x) & m
		}
		if y == -1 {
			return 0
		}
		return uint64(x%y) & m
	case OpBAnd:
		return get(a[0]) & get(a[1])
	case OpBOr:
		return get(a[0]) | get(a[1])
	case OpBXor:
		return get(a[0]) ^ get(a[1])
	case OpShl:
		y := get(a[1])
		if y >= uint64(t.Sort.Bits()) {
			return 0
		}
		return (get(a[0]) << y) & m
	case OpLShr:
		y := get(a[1])
		if y >= uint64(t.Sort.Bits()) {
			return 0
		}
		return get(a[0]) >> y
	case OpAShr:
		n := t.Sort.Bits()
		y := get(a[1])
		x := sext(get(a[0]), n)
		if y >= uint64(n) {
			y = uint64(n - 1)
		}
		return uint64(x>>y) & m
	case OpNeg:
		return (-get(a[0])) & m
	case OpBNot:
		return (^get(a[0])) & m
	case OpULt:
		return b2u(get(a[0]) < get(a[1]))
	case OpULe:
		return b2u(get(a[0]) <= get(a[1]))
	case OpSLt:
		n := a[0].Sort.Bits()
		return b2u(sext(get(a[0]), n) < sext(get(a[1]), n))
	case OpSLe:
		n := a[0].Sort.Bits()
		return b2u(sext(get(a[0]), n) <= sext(get(a[1]), n))
	case OpZExt:
		return get(a[0])
	case OpSExt:
		return uint64(sext(get(a[0]), a[0].Sort.Bits())) & m
	case OpTrunc:
		return get(a[0]) & m
	case OpFAdd, OpFSub, OpFMul, OpFDiv:
		x, y := get(a[0]), get(a[1])
		if t.Sort == F32 {
			fx, fy := math.Float32frombits(uint32(x)), math.Float32frombits(uint32(y))
			var r float32
			switch t.Op {
			case OpFAdd:
				r = fx + fy
			case OpFSub:
				r = fx - fy
			case OpFMul:
				r = fx * fy
			case OpFDiv:
				r = fx / fy
			}
			return uint64(math.Float32bits(r))
		}
		fx, fy := math.Float64frombits(x), math.Float64frombits(y)
		var r float64
		switch t.Op {
		case OpFAdd:
			r = fx + fy
		case OpFSub:
			r = fx - fy
		case OpFMul:
			r = fx * fy
		case OpFDiv:
			r = fx / fy
		}
		return math.Float64bits(r)
	case OpFNeg:
		if t.Sort == F32 {
			return get(a[0]) ^ (1 << 31)
		}
		return get(a[0]) ^ (1 << 63)
	case OpFLt:
		return b2u(fval(a[0], get(a[0])) < fval(a[1], get(a[1])))
	case OpFLe:
		return b2u(fval(a[0], get(a[0])) <= fval(a[1], get(a[1])))
	case OpFEq:
		return b2u(fval(a[0], get(a[0])) == fval(a[1], get(a[1])))
	case OpFIsNaN:
		f := fval(a[0], get(a[0]))
		return b2u(f != f)
	case OpSIToFP:
		x := sext(get(a[0]), a[0].Sort.Bits())
		if t.Sort == F32 {
			return uint64(math.Float32bits(float32(x)))
		}
		return math.Float64bits(float64(x))
	case OpUIToFP:
		x := get(a[0])
		if t.Sort == F32 {
			return uint64(math.Float32bits(float32(x)))
		}
		return math.Float64bits(float64(x))
	case OpFPToSI:
		f := fval(a[0], get(a[0]))
		return fpToSI(f, t.Sort.Bits())
	case OpFPToUI:
		f := fval(a[0], get(a[0]))
		return fpToUI(f, t.Sort.Bits())
	case OpFPToFP:
		return fbits(t.Sort, fval(a[0], get(a[0])))
	case OpBitsToFP:
		return get(a[0])
	}
	panic(fmt.Sprintf("sym.eval: op %d", t.Op))
}

// fpToSI models the amd64 behaviour of Go's float->signed conversion:
// the 64-bit truncating conversion yields 0x8000000000000000 for NaN
// and out-of-range inputs, and narrower targets take the low bits.
func fpToSI(f float64, n int) uint64 {
	var r int64
	if f != f || f >= 9223372036854775808.0 || f < -9223372036854775808.0 {
		r = math.MinInt64
	} else {
		r = int64(f)
	}
	if n >= 64 {
		return uint64(r)
	}
	return uint64(r) & ((1 << uint(n)) - 1)
}

func fpToUI(f float64, n int) uint64 {
	// Go amd64: uint64(f) for f<2^63 uses cvttsd2sq, otherwise subtracts 2^63.
	var r uint64
	switch {
	case f != f:
		r = 1 << 63
	case f < 9223372036854775808.0:
		r = fpToSI(f, 64)
	case f < 18446744073709551616.0:
		r = uint64(int64(f-9223372036854775808.0)) ^ (1 << 63)
	default:
		r = 1 << 63
	}
	if n >= 64 {
		return r
	}
	return r & ((1 << uint(n)) - 1)
}

// Eval evaluates t under an assignment of variable names to bit patterns.
// Unassigned variables evaluate to 0.
func Eval(t *Term, model map[string]uint64) uint64 {
	memo := map[*Term]uint64{}
	var ev func(*Term) uint64
	ev = func(x *Term) uint64 {
		if x.Op == OpConst {
			return x.Val
		}
		if v, ok := memo[x]; ok {
			return v
		}
		var v uint64
		if x.Op == OpVar {
			v = model[x.Name] & mask(x.Sort)
		} else {
			v = evalNode(x, ev)
		}
		memo[x] = v
		return v
	}
	return ev(t)
}

// Evaluator memoises evaluation of many terms under one model.
type Evaluator struct {
	Model map[string]uint64
	memo  map[*Term]uint64
}

func NewEvaluator(m map[string]uint64) *Evaluator {
	return &Evaluator{Model: m, memo: map[*Term]uint64{}}
}

func (e *Evaluator) Eval(x *Term) uint64 {
	if x.Op == OpConst {
		return x.Val
	}
	if v, ok := e.memo[x]; ok {
		return v
	}
	var v uint64
	if x.Op == OpVar {
		v = e.Model[x.Name] & mask(x.Sort)
	} else {
		v = evalNode(x, e.Eval)
	}
	e.memo[x] = v
	return v
}

// ---------------------------------------------------------------- printing

func constSMT(t *Term) string {
	switch t.Sort {
	case Bool:
		if t.Val != 0 {
			return "true"
		}
		return "false"
	case BV8:
		return fmt.Sprintf("#x%02x", t.Val)
	case BV16:
		return fmt.Sprintf("#x%04x", t.Val)
	case BV32:
		return fmt.Sprintf("#x%08x", t.Val)
	case BV64:
		return fmt.Sprintf("#x%016x", t.Val)
	case F32:
		return fmt.Sprintf("((_ to_fp 8 24) #x%08x)", t.Val)
	case F64:
		return fmt.Sprintf("((_ to_fp 11 53) #x%016x)", t.Val)
	}
	panic("bad sort")
}

func fpDims(s Sort) string {
	if s == F32 {
		return "8 24"
	}
	return "11 53"
}

// Printer emits SMT-LIB2 definitions incrementally; each non-leaf node is
// defined once as a nullary define-fun named t<ID>.
type Printer struct {
	emitted map[*Term]bool
}

func NewPrinter() *Printer { return &Printer{emitted: map[*Term]bool{}} }

func (p *Printer) Reset() { p.emitted = map[*Term]bool{} }

func ref(t *Term) string {
	switch t.Op {
	case OpConst:
		return constSMT(t)
	case OpVar:
		return t.Name
	}
	return fmt.Sprintf("t%d", t.ID)
}

// Define writes declarations/definitions needed for t into sb and returns the
// reference to use for t.
func (p *Printer) Define(sb *strings.Builder, t *Term) string {
	// iterative post-order to avoid deep recursion
	type item struct {
		t    *Term
		done bool
	}
	stack := []item{{t, false}}
	for len(stack) > 0 {
		it := stack[len(stack)-1]
		stack = stack[:len(stack)-1]
		x := it.t
		if x.Op == OpConst || p.emitted[x] {
			continue
		}
		if x.Op == OpVar {
			p.emitted[x] = true
			fmt.Fprintf(sb, "(declare-const %s %s)\n", x.Name, x.Sort.SMT())
			continue
		}
		if !it.done {
			stack = append(stack, item{x, true})
			for _, a := range x.Args {
				if a.Op != OpConst && !p.emitted[a] {
					stack = append(stack, item{a, false})
				}
			}
			continue
		}
		p.emitted[x] = true
		fmt.Fprintf(sb, "(define-fun t%d () %s %s)\n", x.ID, x.Sort.SMT(), body(x))
	}
	return ref(t)
}

func body(x *Term) string {
	a := x.Args
	switch x.Op {
	case OpZExt:
		return fmt.Sprintf("((_ zero_extend %d) %s)", x.Sort.Bits()-a[0].Sort.Bits(), ref(a[0]))
	case OpSExt:
		return fmt.Sprintf("((_ sign_extend %d) %s)", x.Sort.Bits()-a[0].Sort.Bits(), ref(a[0]))
	case OpTrunc:
		return fmt.Sprintf("((_ extract %d 0) %s)", x.Sort.Bits()-1, ref(a[0]))
	case OpSIToFP:
		return fmt.Sprintf("((_ to_fp %s) RNE %s)", fpDims(x.Sort), ref(a[0]))
	case OpUIToFP:
		return fmt.Sprintf("((_ to_fp_unsigned %s) RNE %s)", fpDims(x.Sort), ref(a[0]))
	case OpFPToFP:
		return fmt.Sprintf("((_ to_fp %s) RNE %s)", fpDims(x.Sort), ref(a[0]))
	case OpBitsToFP:
		return fmt.Sprintf("((_ to_fp %s) %s)", fpDims(x.Sort), ref(a[0]))
	case OpFPToSI:
		// amd64 semantics: NaN / out of int64 range -> MinInt64, then truncate.
		f := ref(a[0])
		d := fpDims(a[0].Sort)
		in := fmt.Sprintf("(and (not (fp.isNaN %s)) (fp.lt %s ((_ to_fp %s) RNE 9223372036854775808.0)) (fp.geq %s ((_ to_fp %s) RNE (- 9223372036854775808.0))))", f, f, d, f, d)
		full := fmt.Sprintf("(ite %s ((_ fp.to_sbv 64) RTZ %s) #x8000000000000000)", in, f)
		if x.Sort.Bits() == 64 {
			return full
		}
		return fmt.Sprintf("((_ extract %d 0) %s)", x.Sort.Bits()-1, full)
	case OpFPToUI:
		f := ref(a[0])
		d := fpDims(a[0].Sort)
		two63 := fmt.Sprintf("((_ to_fp %s) RNE 9223372036854775808.0)", d)
		two64 := fmt.Sprintf("((_ to_fp %s) RNE 18446744073709551616.0)", d)
		lowOK := fmt.Sprintf("(and (not (fp.isNaN %s)) (fp.lt %s %s) (fp.geq %s ((_ to_fp %s) RNE (- 9223372036854775808.0))))", f, f, two63, f, d)
		low := fmt.Sprintf("(ite %s ((_ fp.to_sbv 64) RTZ %s) #x8000000000000000)", lowOK, f)
		high := fmt.Sprintf("(bvxor ((_ fp.to_sbv 64) RTZ (fp.sub RNE %s %s)) #x8000000000000000)", f, two63)
		full := fmt.Sprintf("(ite (fp.isNaN %s) #x8000000000000000 (ite (fp.lt %s %s) %s (ite (fp.lt %s %s) %s #x8000000000000000)))", f, f, two63, low, f, two64, high)
		if x.Sort.Bits() == 64 {
			return full
		}
		return fmt.Sprintf("((_ extract %d 0) %s)", x.Sort.Bits()-1, full)
	}
	name, ok := opNames[x.Op]
	if !ok {
		panic(fmt.Sprintf("sym.print: op %d", x.Op))
	}
	var sb strings.Builder
	sb.WriteByte('(')
	sb.WriteString(name)
	for _, ar := range a {
		sb.WriteByte(' ')
		sb.WriteString(ref(ar))
	}
	sb.WriteByte(')')
	return sb.String()
}

// String renders a term as a nested expression (for diagnostics).
func (t *Term) String() string {
	switch t.Op {
	case OpConst:
		if t.Sort == Bool {
			return constSMT(t)
		}
		if t.Sort.IsFP() {
			return fmt.Sprint(fval(t, t.Val))
		}
		return fmt.Sprintf("%d", t.Val)
	case OpVar:
		return t.Name
	}
	var sb strings.Builder
	sb.WriteByte('(')
	if n, ok := opNames[t.Op]; ok {
		sb.WriteString(n)
	} else {
		fmt.Fprintf(&sb, "op%d", t.Op)
	}
	for _, a := range t.Args {
		sb.WriteByte(' ')
		sb.WriteString(a.String())
	}
	sb.WriteByte(')')
	return sb.String()
}

var _ = bits.Len

// EvalTree evaluates t treating every variable as having value x, without
// memoisation (for small single-variable terms). budget bounds the nodes
// visited; ok=false if exceeded.
func EvalTree(t *Term, x uint64, budget *int) (uint64, bool) {
	ok := true
	var ev func(*Term) uint64
	ev = func(n *Term) uint64 {
		if !ok {
			return 0
		}
		*budget--
		if *budget < 0 {
			ok = false
			return 0
		}
		switch n.Op {
		case OpConst:
			return n.Val
		case OpVar:
			return x & mask(n.Sort)
		}
		return evalNode(n, ev)
	}
	v := ev(t)
	return v, ok
}

// CanonKey serialises a single-variable term with the variable anonymised, for
// use as a cache key across term contexts. ok=false if the term is too big.
func CanonKey(t *Term, limit int) (string, bool) {
	var sb strings.Builder
	n := 0
	var w func(*Term) bool
	w = func(x *Term) bool {
		n++
		if n > limit {
			return false
		}
		switch x.Op {
		case OpConst:
			fmt.Fprintf(&sb, "k%d:%x", x.Sort, x.Val)
			return true
		case OpVar:
			fmt.Fprintf(&sb, "$%d", x.Sort)
			return true
		}
		fmt.Fprintf(&sb, "(%d:%d", x.Op, x.Sort)
		for _, a := range x.Args {
			sb.WriteByte(' ')
			if !w(a) {
				return false
			}
		}
		sb.WriteByte(')')
		return true
	}
	if !w(t) {
		return "", false
	}
	return sb.String(), true
}
