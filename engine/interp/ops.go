package interp

import (
	"fmt"
	"go/token"
	"go/types"
	"math"
	"unicode/utf8"
	"unsafe"

	"golang.org/x/tools/go/ssa"

	"gosym/sym"
)

// targetPanic is a Go-level panic carrying a panic of the target program.
type targetPanic struct {
	v value
}

func (p targetPanic) String() string { return toString(p.v) }

// engineError aborts the whole path: the engine met something it cannot model.
type engineError struct {
	msg string
}

func (e engineError) Error() string { return e.msg }

func unsupported(format string, args ...interface{}) engineError {
	return engineError{"UNSUPPORTED: " + fmt.Sprintf(format, args...)}
}

// basicInfo returns sort and signedness of a basic numeric/bool type.
func basicSort(t types.Type) (sym.Sort, bool) {
	b, ok := t.Underlying().(*types.Basic)
	if !ok {
		panic(unsupported("basicSort of %v", t))
	}
	switch b.Kind() {
	case types.Bool, types.UntypedBool:
		return sym.Bool, false
	case types.Int8:
		return sym.BV8, true
	case types.Int16:
		return sym.BV16, true
	case types.Int32, types.UntypedRune:
		return sym.BV32, true
	case types.Int, types.Int64, types.UntypedInt:
		return sym.BV64, true
	case types.Uint8:
		return sym.BV8, false
	case types.Uint16:
		return sym.BV16, false
	case types.Uint32:
		return sym.BV32, false
	case types.Uint, types.Uint64, types.Uintptr:
		return sym.BV64, false
	case types.Float32:
		return sym.F32, true
	case types.Float64, types.UntypedFloat:
		return sym.F64, true
	}
	panic(unsupported("basicSort of %v", t))
}

// toTerm converts a concrete scalar (or a term) to a term.
func (m *Machine) toTerm(v value) *sym.Term {
	c := m.ctx()
	switch x := v.(type) {
	case *sym.Term:
		return x
	case bool:
		return c.Bool(x)
	case int:
		return c.Const(sym.BV64, uint64(x))
	case int8:
		return c.Const(sym.BV8, uint64(uint8(x)))
	case int16:
		return c.Const(sym.BV16, uint64(uint16(x)))
	case int32:
		return c.Const(sym.BV32, uint64(uint32(x)))
	case int64:
		return c.Const(sym.BV64, uint64(x))
	case uint:
		return c.Const(sym.BV64, uint64(x))
	case uint8:
		return c.Const(sym.BV8, uint64(x))
	case uint16:
		return c.Const(sym.BV16, uint64(x))
	case uint32:
		return c.Const(sym.BV32, uint64(x))
	case uint64:
		return c.Const(sym.BV64, x)
	case uintptr:
		return c.Const(sym.BV64, uint64(x))
	case float32:
		return c.Const(sym.F32, uint64(math.Float32bits(x)))
	case float64:
		return c.Const(sym.F64, math.Float64bits(x))
	}
	panic(unsupported("toTerm(%T)", v))
}

// fromConst converts a constant term back to a typed Go value of type t.
func fromConst(t types.Type, k *sym.Term) value {
	b := t.Underlying().(*types.Basic)
	v := k.Val
	switch b.Kind() {
	case types.Bool, types.UntypedBool:
		return v != 0
	case types.Int, types.UntypedInt:
		return int(v)
	case types.Int8:
		return int8(v)
	case types.Int16:
		return int16(v)
	case types.Int32, types.UntypedRune:
		return int32(v)
	case types.Int64:
		return int64(v)
	case types.Uint:
		return uint(v)
	case types.Uint8:
		return uint8(v)
	case types.Uint16:
		return uint16(v)
	case types.Uint32:
		return uint32(v)
	case types.Uint64:
		return uint64(v)
	case types.Uintptr:
		return uintptr(v)
	case types.Float32:
		return math.Float32frombits(uint32(v))
	case types.Float64, types.UntypedFloat:
		return math.Float64frombits(v)
	}
	panic(unsupported("fromConst(%v)", t))
}

// lower turns a constant term into a concrete value of type t; other terms stay.
func lower(t types.Type, x *sym.Term) value {
	if x.IsConst() {
		return fromConst(t, x)
	}
	return x
}

func (m *Machine) symEq(x *sym.Term, y value) value {
	c := m.ctx()
	yt := m.toTerm(y)
	var r *sym.Term
	if x.Sort.IsFP() {
		r = c.Bin(sym.OpFEq, x, yt)
	} else {
		r = c.Eq(x, yt)
	}
	if r.IsConst() {
		return r.Val != 0
	}
	return r
}

func (m *Machine) byteEq(a, b value) value {
	if at, ok := a.(*sym.Term); ok {
		return m.symEq(at, b)
	}
	if bt, ok := b.(*sym.Term); ok {
		return m.symEq(bt, a)
	}
	return a.(uint8) == b.(uint8)
}

func (m *Machine) strEq(x symstr, y value) value {
	yb := strBytes(y)
	if len(x) != len(yb) {
		return false
	}
	var acc value = true
	for i := range x {
		acc = m.andV(acc, m.byteEq(x[i], yb[i]))
		if acc == false {
			return false
		}
	}
	return acc
}

// strLess returns x < y (orEq: x <= y) for strings with symbolic bytes.
func (m *Machine) strLess(x, y value, orEq bool) value {
	xb, yb := strBytes(x), strBytes(y)
	c := m.ctx()
	n := len(xb)
	if len(yb) < n {
		n = len(yb)
	}
	// result when all first n bytes equal
	var tail *sym.Term
	if orEq {
		tail = c.Bool(len(xb) <= len(yb))
	} else {
		tail = c.Bool(len(xb) < len(yb))
	}
	acc := tail
	for i := n - 1; i >= 0; i-- {
		a, b := m.toTerm(xb[i]), m.toTerm(yb[i])
		lt := c.Bin(sym.OpULt, a, b)
		eq := c.Eq(a, b)
		acc = c.Or(lt, c.And(eq, acc))
	}
	if acc.IsConst() {
		return acc.Val != 0
	}
	return acc
}

func isStr(v value) bool {
	switch v.(type) {
	case string, symstr:
		return true
	}
	return false
}

func isSymScalar(v value) bool {
	_, ok := v.(*sym.Term)
	return ok
}

// binop implements binary operators; operands may be symbolic.
func (m *Machine) binop(op token.Token, t types.Type, x, y value) value {
	switch op {
	case token.EQL:
		return m.eqnil(t, x, y)
	case token.NEQ:
		return m.notV(m.eqnil(t, x, y))
	}
	_, xs := x.(*sym.Term)
	_, ys := y.(*sym.Term)
	if !xs && !ys {
		_, xss := x.(symstr)
		_, yss := y.(symstr)
		if xss || yss {
			return m.strBinop(op, x, y)
		}
		switch op {
		case token.QUO, token.REM:
			if isIntZero(y) {
				panic(m.runtimeError("integer divide by zero"))
			}
		case token.SHL, token.SHR:
			if _, ok := asUnsigned(y); !ok {
				panic(m.runtimeError("negative shift amount"))
			}
		}
		return binopC(op, t, x, y)
	}
	return m.symBinop(op, t, x, y)
}

func isIntZero(y value) bool {
	switch y := y.(type) {
	case int:
		return y == 0
	case int8:
		return y == 0
	case int16:
		return y == 0
	case int32:
		return y == 0
	case int64:
		return y == 0
	case uint:
		return y == 0
	case uint8:
		return y == 0
	case uint16:
		return y == 0
	case uint32:
		return y == 0
	case uint64:
		return y == 0
	case uintptr:
		return y == 0
	}
	return false
}

func (m *Machine) strBinop(op token.Token, x, y value) value {
	switch op {
	case token.ADD:
		xb, yb := strBytes(x), strBytes(y)
		r := make(symstr, 0, len(xb)+len(yb))
		r = append(r, xb...)
		r = append(r, yb...)
		return normStr(r)
	case token.LSS:
		return m.strLess(x, y, false)
	case token.LEQ:
		return m.strLess(x, y, true)
	case token.GTR:
		return m.strLess(y, x, false)
	case token.GEQ:
		return m.strLess(y, x, true)
	}
	panic(unsupported("string op %v", op))
}

func (m *Machine) symBinop(op token.Token, t types.Type, x, y value) value {
	c := m.ctx()
	xt := m.toTerm(x)
	s, signed := xt.Sort, false
	if t != nil {
		s, signed = basicSort(t)
	}
	if s == sym.Bool {
		panic(unsupported("bool binop %v", op))
	}
	if op == token.SHL || op == token.SHR {
		yt := m.toTerm(y)
		// negative signed count panics: callers' types tell us; y's static type is
		// not passed here, so rely on sort only (treated as unsigned unless the
		// frame checked it: see visitInstr BinOp).
		cnt := m.shiftCount(yt, s)
		var r *sym.Term
		if op == token.SHL {
			r = c.Bin(sym.OpShl, xt, cnt)
		} else if signed {
			r = c.Bin(sym.OpAShr, xt, cnt)
		} else {
			r = c.Bin(sym.OpLShr, xt, cnt)
		}
		return lower(t, r)
	}
	yt := m.toTerm(y)
	if xt.Sort != yt.Sort {
		panic(engineError{fmt.Sprintf("binop %v: sort mismatch %v vs %v (type %v)", op, xt.Sort, yt.Sort, t)})
	}
	if s.IsFP() {
		var r *sym.Term
		switch op {
		case token.ADD:
			r = c.Bin(sym.OpFAdd, xt, yt)
		case token.SUB:
			r = c.Bin(sym.OpFSub, xt, yt)
		case token.MUL:
			r = c.Bin(sym.OpFMul, xt, yt)
		case token.QUO:
			r = c.Bin(sym.OpFDiv, xt, yt)
		case token.LSS:
			return lowerBool(c.Bin(sym.OpFLt, xt, yt))
		case token.LEQ:
			return lowerBool(c.Bin(sym.OpFLe, xt, yt))
		case token.GTR:
			return lowerBool(c.Bin(sym.OpFLt, yt, xt))
		case token.GEQ:
			return lowerBool(c.Bin(sym.OpFLe, yt, xt))
		default:
			panic(unsupported("float op %v", op))
		}
		return lower(t, r)
	}
	var r *sym.Term
	switch op {
	case token.ADD:
		r = c.Bin(sym.OpAdd, xt, yt)
	case token.SUB:
		r = c.Bin(sym.OpSub, xt, yt)
	case token.MUL:
		r = c.Bin(sym.OpMul, xt, yt)
	case token.QUO, token.REM:
		zero := c.Const(s, 0)
		if m.truth(lowerBool(c.Eq(yt, zero))) {
			panic(m.runtimeError("integer divide by zero"))
		}
		switch {
		case op == token.QUO && signed:
			r = c.Bin(sym.OpSDiv, xt, yt)
		case op == token.QUO:
			r = c.Bin(sym.OpUDiv, xt, yt)
		case signed:
			r = c.Bin(sym.OpSRem, xt, yt)
		default:
			r = c.Bin(sym.OpURem, xt, yt)
		}
	case token.AND:
		r = c.Bin(sym.OpBAnd, xt, yt)
	case token.OR:
		r = c.Bin(sym.OpBOr, xt, yt)
	case token.XOR:
		r = c.Bin(sym.OpBXor, xt, yt)
	case token.AND_NOT:
		r = c.Bin(sym.OpBAnd, xt, c.Un(sym.OpBNot, yt))
	case token.LSS:
		if signed {
			return lowerBool(c.Bin(sym.OpSLt, xt, yt))
		}
		return lowerBool(c.Bin(sym.OpULt, xt, yt))
	case token.LEQ:
		if signed {
			return lowerBool(c.Bin(sym.OpSLe, xt, yt))
		}
		return lowerBool(c.Bin(sym.OpULe, xt, yt))
	case token.GTR:
		if signed {
			return lowerBool(c.Bin(sym.OpSLt, yt, xt))
		}
		return lowerBool(c.Bin(sym.OpULt, yt, xt))
	case token.GEQ:
		if signed {
			return lowerBool(c.Bin(sym.OpSLe, yt, xt))
		}
		return lowerBool(c.Bin(sym.OpULe, yt, xt))
	default:
		panic(unsupported("int op %v", op))
	}
	return lower(t, r)
}

func lowerBool(t *sym.Term) value {
	if t.IsConst() {
		return t.Val != 0
	}
	return t
}

// shiftCount adapts a (non-negative) shift count term to sort s, saturating.
func (m *Machine) shiftCount(cnt *sym.Term, s sym.Sort) *sym.Term {
	c := m.ctx()
	if cnt.Sort == s {
		return cnt
	}
	if cnt.Sort.Bits() < s.Bits() {
		return c.Conv(sym.OpZExt, s, cnt)
	}
	// wider count: saturate to width
	w := c.Const(cnt.Sort, uint64(s.Bits()))
	big := c.Bin(sym.OpULe, w, cnt)
	return c.Ite(big, c.Const(s, uint64(s.Bits())), c.Conv(sym.OpTrunc, s, cnt))
}

// eqnil returns x == y for type t; handles nil-able reference kinds.
func (m *Machine) eqnil(t types.Type, x, y value) value {
	switch t.Underlying().(type) {
	case *types.Map, *types.Signature, *types.Slice:
		return isNilRef(x) == isNilRef(y) && (isNilRef(x) || panicUncomparable(t))
	}
	return m.equalsV(t, x, y)
}

func panicUncomparable(t types.Type) bool {
	panic(engineError{fmt.Sprintf("eqnil(%s): both operands non-nil", t)})
}

func isNilRef(x value) bool {
	switch x := x.(type) {
	case *omap:
		return x == nil
	case *ssa.Function:
		return x == nil
	case *closure:
		return x == nil
	case *nativeFn:
		return x == nil
	case *ssa.Builtin:
		return x == nil
	case []value:
		return x == nil
	}
	panic(engineError{fmt.Sprintf("isNilRef(%T)", x)})
}

func (m *Machine) unop(instr *ssa.UnOp, x value) value {
	if xt, ok := x.(*sym.Term); ok {
		c := m.ctx()
		switch instr.Op {
		case token.NOT:
			return lowerBool(c.Not(xt))
		case token.SUB:
			if xt.Sort.IsFP() {
				return lower(instr.Type(), c.Un(sym.OpFNeg, xt))
			}
			return lower(instr.Type(), c.Un(sym.OpNeg, xt))
		case token.XOR:
			return lower(instr.Type(), c.Un(sym.OpBNot, xt))
		}
		panic(unsupported("symbolic unop %v", instr.Op))
	}
	switch instr.Op {
	case token.SUB:
		switch x := x.(type) {
		case int:
			return -x
		case int8:
			return -x
		case int16:
			return -x
		case int32:
			return -x
		case int64:
			return -x
		case uint:
			return -x
		case uint8:
			return -x
		case uint16:
			return -x
		case uint32:
			return -x
		case uint64:
			return -x
		case uintptr:
			return -x
		case float32:
			return -x
		case float64:
			return -x
		case complex64:
			return -x
		case complex128:
			return -x
		}
	case token.MUL:
		p := x.(*value)
		if p == nil {
			panic(m.nilDeref())
		}
		return load(deref(instr.X.Type()), p)
	case token.NOT:
		return !x.(bool)
	case token.XOR:
		switch x := x.(type) {
		case int:
			return ^x
		case int8:
			return ^x
		case int16:
			return ^x
		case int32:
			return ^x
		case int64:
			return ^x
		case uint:
			return ^x
		case uint8:
			return ^x
		case uint16:
			return ^x
		case uint32:
			return ^x
		case uint64:
			return ^x
		case uintptr:
			return ^x
		}
	}
	panic(engineError{fmt.Sprintf("invalid unary op %s %T", instr.Op, x)})
}

// deref returns the element type of a pointer type (core type aware).
func deref(t types.Type) types.Type {
	if p, ok := t.Underlying().(*types.Pointer); ok {
		return p.Elem()
	}
	panic(engineError{fmt.Sprintf("deref of non-pointer %v", t)})
}

// conv converts x of type t_src to t_dst.
func (m *Machine) conv(t_dst, t_src types.Type, x value) value {
	ut_src := t_src.Underlying()
	ut_dst := t_dst.Underlying()
	c := m.ctx()

	switch ut_src := ut_src.(type) {
	case *types.Pointer:
		if b, ok := ut_dst.(*types.Basic); ok && b.Kind() == types.UnsafePointer {
			return unsafe.Pointer(x.(*value))
		}
	case *types.Slice:
		// []byte or []rune -> string
		xs := x.([]value)
		switch ut_src.Elem().Underlying().(*types.Basic).Kind() {
		case types.Byte:
			r := make(symstr, len(xs))
			copy(r, xs)
			return normStr(r)
		case types.Rune:
			var out symstr
			for _, rv := range xs {
				out = append(out, m.encodeRune(rv)...)
			}
			return normStr(out)
		}
	case *types.Basic:
		// string -> ...
		if isStr(x) {
			switch ut_dst := ut_dst.(type) {
			case *types.Slice:
				switch ut_dst.Elem().Underlying().(*types.Basic).Kind() {
				case types.Byte:
					b := strBytes(x)
					r := make([]value, len(b))
					copy(r, b)
					return r
				case types.Rune:
					var res []value
					if s, ok := x.(string); ok {
						for _, r := range s {
							res = append(res, r)
						}
						return res
					}
					b := strBytes(x)
					for i := 0; i < len(b); {
						r, n := m.decodeRune(b[i:])
						res = append(res, r)
						i += n
					}
					return res
				}
			case *types.Basic:
				if ut_dst.Kind() == types.String {
					return x
				}
			}
			break
		}
		// integer -> string
		if ut_src.Info()&types.IsInteger != 0 {
			if bd, ok := ut_dst.(*types.Basic); ok && bd.Kind() == types.String {
				if xt, ok := x.(*sym.Term); ok {
					s, signed := basicSort(t_src)
					_ = s
					// widen to rune (int32) semantics: out of range -> U+FFFD
					var r32 *sym.Term
					switch {
					case xt.Sort.Bits() < 32 && signed:
						r32 = c.Conv(sym.OpSExt, sym.BV32, xt)
					case xt.Sort.Bits() < 32:
						r32 = c.Conv(sym.OpZExt, sym.BV32, xt)
					case xt.Sort.Bits() == 32:
						r32 = xt
					default:
						// 64-bit: values outside int32 range map to U+FFFD
						lo := c.Conv(sym.OpTrunc, sym.BV32, xt)
						var fits *sym.Term
						if signed {
							fits = c.Eq(c.Conv(sym.OpSExt, sym.BV64, lo), xt)
						} else {
							fits = c.Bin(sym.OpULe, xt, c.Const(sym.BV64, 0x7fffffff))
						}
						r32 = c.Ite(fits, lo, c.Const(sym.BV32, 0xFFFD))
					}
					return normStr(symstr(m.encodeRune(r32)))
				}
				w := widen(x)
				var r rune
				switch w := w.(type) {
				case int64:
					if w < 0 || w > 0x10FFFF {
						r = 0xFFFD
					} else {
						r = rune(w)
					}
				case uint64:
					if w > 0x10FFFF {
						r = 0xFFFD
					} else {
						r = rune(w)
					}
				}
				return string(r)
			}
		}
		if ut_src.Kind() == types.UnsafePointer {
			return zero(t_dst)
		}
		if xt, ok := x.(*sym.Term); ok {
			return m.symConv(t_dst, t_src, xt)
		}
		return convC(t_dst, t_src, x)
	}
	panic(engineError{fmt.Sprintf("unsupported conversion: %s  -> %s, dynamic type %T", t_src, t_dst, x)})
}

func (m *Machine) symConv(t_dst, t_src types.Type, x *sym.Term) value {
	c := m.ctx()
	ss, ssigned := basicSort(t_src)
	ds, dsigned := basicSort(t_dst)
	_ = ss
	var r *sym.Term
	switch {
	case x.Sort.IsBV() && ds.IsBV():
		switch {
		case ds.Bits() == x.Sort.Bits():
			r = x
		case ds.Bits() < x.Sort.Bits():
			r = c.Conv(sym.OpTrunc, ds, x)
		case ssigned:
			r = c.Conv(sym.OpSExt, ds, x)
		default:
			r = c.Conv(sym.OpZExt, ds, x)
		}
	case x.Sort.IsBV() && ds.IsFP():
		if ssigned {
			r = c.Conv(sym.OpSIToFP, ds, x)
		} else {
			r = c.Conv(sym.OpUIToFP, ds, x)
		}
	case x.Sort.IsFP() && ds.IsBV():
		if dsigned {
			r = c.Conv(sym.OpFPToSI, ds, x)
		} else {
			r = c.Conv(sym.OpFPToUI, ds, x)
		}
	case x.Sort.IsFP() && ds.IsFP():
		r = c.Conv(sym.OpFPToFP, ds, x)
	case x.Sort == sym.Bool && ds == sym.Bool:
		r = x
	default:
		panic(unsupported("symbolic conversion %v -> %v", t_src, t_dst))
	}
	return lower(t_dst, r)
}

// convC converts between concrete numeric kinds.
func convC(t_dst, t_src types.Type, x value) value {
	ut_src := t_src.Underlying().(*types.Basic)
	kindDst := t_dst.Underlying().(*types.Basic)
	if kindDst.Kind() == types.String {
		if s, ok := x.(string); ok {
			return s
		}
	}
	if kindDst.Kind() == types.Bool {
		return x
	}
	x = widen(x)
	if ut_src.Info()&types.IsComplex != 0 {
		switch kindDst.Kind() {
		case types.Complex64:
			return complex64(x.(complex128))
		case types.Complex128:
			return x.(complex128)
		}
	}
	kind := kindDst.Kind()
	switch x := x.(type) {
	case int64:
		switch kind {
		case types.Int:
			return int(x)
		case types.Int8:
			return int8(x)
		case types.Int16:
			return int16(x)
		case types.Int32:
			return int32(x)
		case types.Int64:
			return int64(x)
		case types.Uint:
			return uint(x)
		case types.Uint8:
			return uint8(x)
		case types.Uint16:
			return uint16(x)
		case types.Uint32:
			return uint32(x)
		case types.Uint64:
			return uint64(x)
		case types.Uintptr:
			return uintptr(x)
		case types.Float32:
			return float32(x)
		case types.Float64:
			return float64(x)
		}
	case uint64:
		switch kind {
		case types.Int:
			return int(x)
		case types.Int8:
			return int8(x)
		case types.Int16:
			return int16(x)
		case types.Int32:
			return int32(x)
		case types.Int64:
			return int64(x)
		case types.Uint:
			return uint(x)
		case types.Uint8:
			return uint8(x)
		case types.Uint16:
			return uint16(x)
		case types.Uint32:
			return uint32(x)
		case types.Uint64:
			return uint64(x)
		case types.Uintptr:
			return uintptr(x)
		case types.Float32:
			return float32(x)
		case types.Float64:
			return float64(x)
		}
	case float64:
		switch kind {
		case types.Int:
			return int(x)
		case types.Int8:
			return int8(x)
		case types.Int16:
			return int16(x)
		case types.Int32:
			return int32(x)
		case types.Int64:
			return int64(x)
		case types.Uint:
			return uint(x)
		case types.Uint8:
			return uint8(x)
		case types.Uint16:
			return uint16(x)
		case types.Uint32:
			return uint32(x)
		case types.Uint64:
			return uint64(x)
		case types.Uintptr:
			return uintptr(x)
		case types.Float32:
			return float32(x)
		case types.Float64:
			return float64(x)
		}
	}
	panic(engineError{fmt.Sprintf("unsupported conversion: %s  -> %s, dynamic type %T", t_src, t_dst, x)})
}

// encodeRune returns the UTF-8 bytes of rune r (int32 or BV32 term); forks on
// the encoding length when r is symbolic.
func (m *Machine) encodeRune(r value) []value {
	if rc, ok := r.(int32); ok {
		var buf [4]byte
		n := utf8.EncodeRune(buf[:], rc)
		out := make([]value, n)
		for i := 0; i < n; i++ {
			out[i] = buf[i]
		}
		return out
	}
	c := m.ctx()
	t := r.(*sym.Term)
	k := func(v uint32) *sym.Term { return c.Const(sym.BV32, uint64(v)) }
	b8 := func(x *sym.Term) value { return lower(types.Typ[types.Uint8], c.Conv(sym.OpTrunc, sym.BV8, x)) }
	shr := func(x *sym.Term, n uint32) *sym.Term { return c.Bin(sym.OpLShr, x, k(n)) }
	and := func(x *sym.Term, v uint32) *sym.Term { return c.Bin(sym.OpBAnd, x, k(v)) }
	or := func(x *sym.Term, v uint32) *sym.Term { return c.Bin(sym.OpBOr, x, k(v)) }
	// unsigned comparisons on the uint32 view, as utf8.EncodeRune does
	if m.truth(lowerBool(c.Bin(sym.OpULe, t, k(0x7F)))) {
		return []value{b8(t)}
	}
	if m.truth(lowerBool(c.Bin(sym.OpULe, t, k(0x7FF)))) {
		return []value{b8(or(shr(t, 6), 0xC0)), b8(or(and(t, 0x3F), 0x80))}
	}
	bad := c.Or(c.Bin(sym.OpULt, k(0x10FFFF), t), c.And(c.Bin(sym.OpULe, k(0xD800), t), c.Bin(sym.OpULe, t, k(0xDFFF))))
	if m.truth(lowerBool(bad)) {
		return []value{uint8(0xEF), uint8(0xBF), uint8(0xBD)}
	}
	if m.truth(lowerBool(c.Bin(sym.OpULe, t, k(0xFFFF)))) {
		return []value{b8(or(shr(t, 12), 0xE0)), b8(or(and(shr(t, 6), 0x3F), 0x80)), b8(or(and(t, 0x3F), 0x80))}
	}
	return []value{b8(or(shr(t, 18), 0xF0)), b8(or(and(shr(t, 12), 0x3F), 0x80)), b8(or(and(shr(t, 6), 0x3F), 0x80)), b8(or(and(t, 0x3F), 0x80))}
}

// decodeRune decodes the first rune of b (cells uint8 or BV8 terms), forking on
// symbolic bytes, with the semantics of utf8.DecodeRune. len(b) > 0.
func (m *Machine) decodeRune(b []value) (value, int) {
	allc := true
	lim := len(b)
	if lim > 4 {
		lim = 4
	}
	for _, x := range b[:lim] {
		if _, ok := x.(*sym.Term); ok {
			allc = false
		}
	}
	if allc {
		var buf [4]byte
		for i := 0; i < lim; i++ {
			buf[i] = b[i].(uint8)
		}
		r, n := utf8.DecodeRune(buf[:lim])
		return r, n
	}
	c := m.ctx()
	k8 := func(v uint8) *sym.Term { return c.Const(sym.BV8, uint64(v)) }
	inRange := func(x *sym.Term, lo, hi uint8) value {
		return lowerBool(c.And(c.Bin(sym.OpULe, k8(lo), x), c.Bin(sym.OpULe, x, k8(hi))))
	}
	z32 := func(x *sym.Term) *sym.Term { return c.Conv(sym.OpZExt, sym.BV32, x) }
	k32 := func(v uint32) *sym.Term { return c.Const(sym.BV32, uint64(v)) }
	low := func(x *sym.Term, maskv uint32, sh uint32) *sym.Term {
		return c.Bin(sym.OpShl, c.Bin(sym.OpBAnd, z32(x), k32(maskv)), k32(sh))
	}
	bad := func() (value, int) { return int32(0xFFFD), 1 }
	b0 := m.toTerm(b[0])
	if m.truth(lowerBool(c.Bin(sym.OpULt, b0, k8(0x80)))) {
		return lower(types.Typ[types.Int32], z32(b0)), 1
	}
	// continuation ranges per utf8 table
	if m.truth(inRange(b0, 0xC2, 0xDF)) {
		if len(b) < 2 {
			return bad()
		}
		b1 := m.toTerm(b[1])
		if !m.truth(inRange(b1, 0x80, 0xBF)) {
			return bad()
		}
		r := c.Bin(sym.OpBOr, low(b0, 0x1F, 6), low(b1, 0x3F, 0))
		return lower(types.Typ[types.Int32], r), 2
	}
	if m.truth(inRange(b0, 0xE0, 0xEF)) {
		if len(b) < 3 {
			return bad()
		}
		b1, b2 := m.toTerm(b[1]), m.toTerm(b[2])
		// second byte range depends on first: E0: A0-BF, ED: 80-9F, else 80-BF
		lo := c.Ite(c.Eq(b0, k8(0xE0)), k8(0xA0), k8(0x80))
		hi := c.Ite(c.Eq(b0, k8(0xED)), k8(0x9F), k8(0xBF))
		ok1 := lowerBool(c.And(c.Bin(sym.OpULe, lo, b1), c.Bin(sym.OpULe, b1, hi)))
		if !m.truth(ok1) {
			return bad()
		}
		if !m.truth(inRange(b2, 0x80, 0xBF)) {
			return bad()
		}
		r := c.Bin(sym.OpBOr, c.Bin(sym.OpBOr, low(b0, 0x0F, 12), low(b1, 0x3F, 6)), low(b2, 0x3F, 0))
		return lower(types.Typ[types.Int32], r), 3
	}
	if m.truth(inRange(b0, 0xF0, 0xF4)) {
		if len(b) < 4 {
			return bad()
		}
		b1, b2, b3 := m.toTerm(b[1]), m.toTerm(b[2]), m.toTerm(b[3])
		lo := c.Ite(c.Eq(b0, k8(0xF0)), k8(0x90), k8(0x80))
		hi := c.Ite(c.Eq(b0, k8(0xF4)), k8(0x8F), k8(0xBF))
		ok1 := lowerBool(c.And(c.Bin(sym.OpULe, lo, b1), c.Bin(sym.OpULe, b1, hi)))
		if !m.truth(ok1) {
			return bad()
		}
		if !m.truth(inRange(b2, 0x80, 0xBF)) {
			return bad()
		}
		if !m.truth(inRange(b3, 0x80, 0xBF)) {
			return bad()
		}
		r := c.Bin(sym.OpBOr, c.Bin(sym.OpBOr, low(b0, 0x07, 18), low(b1, 0x3F, 12)), c.Bin(sym.OpBOr, low(b2, 0x3F, 6), low(b3, 0x3F, 0)))
		return lower(types.Typ[types.Int32], r), 4
	}
	return bad()
}

// stringIter ranges over a string (possibly with symbolic bytes).
type stringIter struct {
	b []value
	i int
}

func (it *stringIter) next(fr *frame) tuple {
	if it.i >= len(it.b) {
		return tuple{false, 0, int32(0)}
	}
	r, n := fr.m.decodeRune(it.b[it.i:])
	t := tuple{true, it.i, r}
	it.i += n
	return t
}

func (m *Machine) rangeIter(x value, t types.Type) iter {
	switch x := x.(type) {
	case *omap:
		m.raceMap(x, false)
		return &mapIter{om: x, start: m.mapRangeStart(x)}
	case string, symstr:
		return &stringIter{b: strBytes(x)}
	}
	panic(engineError{fmt.Sprintf("cannot range over %T", x)})
}
