package interp

import (
	"fmt"
	"go/token"
	"go/types"
	"sync"

	"golang.org/x/tools/go/ssa"
)

// Baton scheduler: every interpreted goroutine is a real goroutine, but only
// the holder of the baton runs. Switches happen when the running goroutine
// blocks or exits, and at yield points when schedule exploration is on.

type goroutine struct {
	id      int
	wake    chan struct{}
	done    bool
	blocked bool
	ready   func() bool
	what    string
	pos     token.Pos
	inRepo  bool // created by code of the package under test (not by the harness)
}

type scheduler struct {
	gs       []*goroutine
	cur      *goroutine
	dead     bool
	deadlock bool
	crash    interface{}
	nchan    int
	wg       sync.WaitGroup
	explore  bool // schedule choices are symbolic
	preempts int  // remaining forced preemptions
	switches int
}

type killed struct{}

type waiter struct {
	g      *goroutine
	ch     *ichan
	isSend bool
	val    value
	ok     bool
	done   bool
	sel    *selState
	idx    int
}

type selState struct {
	done   bool
	chosen *waiter
}

func (w *waiter) live() bool { return !w.done && (w.sel == nil || !w.sel.done) }

func (w *waiter) complete() {
	w.done = true
	if w.sel != nil {
		w.sel.done = true
		w.sel.chosen = w
	}
}

type ichan struct {
	id     int
	cap    int
	buf    []value
	closed bool
	recvq  []*waiter
	sendq  []*waiter
}

func (m *Machine) nextChanID() int {
	m.sched.nchan++
	return m.sched.nchan
}

func (m *Machine) resetSched() {
	m.sched = scheduler{}
	g := &goroutine{id: 0, wake: make(chan struct{}, 1)}
	m.sched.gs = []*goroutine{g}
	m.sched.cur = g
}

func firstLive(q []*waiter) (*waiter, []*waiter) {
	for len(q) > 0 {
		w := q[0]
		q = q[1:]
		if w.live() {
			return w, q
		}
	}
	return nil, q
}

func hasLive(q []*waiter) bool {
	for _, w := range q {
		if w.live() {
			return true
		}
	}
	return false
}

func (m *Machine) trySend(ch *ichan, v value) bool {
	if ch == nil {
		return false
	}
	if ch.closed {
		panic(targetPanic{iface{m.P.runtimeErrorString, "send on closed channel"}})
	}
	var w *waiter
	w, ch.recvq = firstLive(ch.recvq)
	if w != nil {
		w.val, w.ok = v, true
		w.complete()
		return true
	}
	if len(ch.buf) < ch.cap {
		ch.buf = append(ch.buf, v)
		return true
	}
	return false
}

func (m *Machine) tryRecv(ch *ichan) (v value, ok bool, success bool) {
	if ch == nil {
		return nil, false, false
	}
	if len(ch.buf) > 0 {
		v = ch.buf[0]
		ch.buf = ch.buf[1:]
		var w *waiter
		w, ch.sendq = firstLive(ch.sendq)
		if w != nil {
			ch.buf = append(ch.buf, w.val)
			w.complete()
		}
		return v, true, true
	}
	var w *waiter
	w, ch.sendq = firstLive(ch.sendq)
	if w != nil {
		w.complete()
		return w.val, true, true
	}
	if ch.closed {
		return nil, false, true
	}
	return nil, false, false
}

func (m *Machine) chanSend(fr *frame, ch *ichan, v value) {
	m.yield(fr, "send")
	v = copyVal(v)
	if ch != nil {
		m.raceRelease(ch)
	}
	if m.trySend(ch, v) {
		return
	}
	w := &waiter{g: fr.g, ch: ch, isSend: true, val: v}
	if ch != nil {
		ch.sendq = append(ch.sendq, w)
	}
	m.block(fr, fmt.Sprintf("chan send (chan %d)", chanID(ch)), func() bool { return w.done || (ch != nil && ch.closed) })
	if !w.done {
		panic(targetPanic{iface{m.P.runtimeErrorString, "send on closed channel"}})
	}
}

func chanID(ch *ichan) int {
	if ch == nil {
		return 0
	}
	return ch.id
}

func (m *Machine) chanRecv(fr *frame, instr *ssa.UnOp) value {
	m.yield(fr, "recv")
	ch := fr.get(instr.X).(*ichan)
	elem := instr.X.Type().Underlying().(*types.Chan).Elem()
	v, ok, success := m.tryRecv(ch)
	if !success {
		w := &waiter{g: fr.g, ch: ch}
		if ch != nil {
			ch.recvq = append(ch.recvq, w)
		}
		m.block(fr, fmt.Sprintf("chan receive (chan %d)", chanID(ch)), func() bool { return w.done })
		v, ok = w.val, w.ok
	}
	if ch != nil {
		m.raceAcquire(ch)
		if ch.cap == 0 {
			m.raceRelease(ch)
		}
	}
	if !ok {
		v = zero(elem)
	}
	if instr.CommaOk {
		return tuple{v, ok}
	}
	return v
}

func (m *Machine) chanClose(fr *frame, ch *ichan) {
	m.yield(fr, "close")
	if ch == nil {
		panic(targetPanic{iface{m.P.runtimeErrorString, "close of nil channel"}})
	}
	if ch.closed {
		panic(targetPanic{iface{m.P.runtimeErrorString, "close of closed channel"}})
	}
	ch.closed = true
	m.raceRelease(ch)
	for _, w := range ch.recvq {
		if w.live() {
			w.val, w.ok = nil, false
			w.complete()
		}
	}
	ch.recvq = nil
}

func (m *Machine) chanSelect(fr *frame, instr *ssa.Select) value {
	m.yield(fr, "select")
	type cs struct {
		ch   *ichan
		send bool
		val  value
	}
	cases := make([]cs, len(instr.States))
	for i, st := range instr.States {
		cases[i].ch = fr.get(st.Chan).(*ichan)
		if st.Dir == types.SendOnly {
			cases[i].send = true
			cases[i].val = copyVal(fr.get(st.Send))
		}
	}
	result := func(chosen int, recv value, recvOk bool) value {
		r := tuple{chosen, recvOk}
		for i, st := range instr.States {
			if st.Dir == types.RecvOnly {
				var v value
				if i == chosen && recvOk {
					v = recv
				} else {
					v = zero(st.Chan.Type().Underlying().(*types.Chan).Elem())
				}
				r = append(r, v)
			}
		}
		return r
	}
	for _, c := range cases {
		if c.send && c.ch != nil {
			m.raceRelease(c.ch)
		}
	}
	// which cases are ready?
	var readyIdx []int
	for i, c := range cases {
		if c.ch == nil {
			continue
		}
		if c.send {
			if c.ch.closed || hasLive(c.ch.recvq) || len(c.ch.buf) < c.ch.cap {
				readyIdx = append(readyIdx, i)
			}
		} else {
			if len(c.ch.buf) > 0 || hasLive(c.ch.sendq) || c.ch.closed {
				readyIdx = append(readyIdx, i)
			}
		}
	}
	if len(readyIdx) > 0 {
		pick := readyIdx[0]
		if len(readyIdx) > 1 {
			pick = readyIdx[m.schedChoice(len(readyIdx), "select")]
		}
		c := cases[pick]
		if c.send {
			if !m.trySend(c.ch, c.val) {
				panic(engineError{"select: ready send failed"})
			}
			return result(pick, nil, false)
		}
		v, ok, success := m.tryRecv(c.ch)
		if !success {
			panic(engineError{"select: ready recv failed"})
		}
		m.raceAcquire(c.ch)
		return result(pick, v, ok)
	}
	if !instr.Blocking {
		return result(-1, nil, false)
	}
	sel := &selState{}
	var ws []*waiter
	for i, c := range cases {
		if c.ch == nil {
			continue
		}
		w := &waiter{g: fr.g, ch: c.ch, isSend: c.send, val: c.val, sel: sel, idx: i}
		ws = append(ws, w)
		if c.send {
			c.ch.sendq = append(c.ch.sendq, w)
		} else {
			c.ch.recvq = append(c.ch.recvq, w)
		}
	}
	m.block(fr, "select", func() bool {
		if sel.done {
			return true
		}
		for _, w := range ws {
			if w.isSend && w.ch.closed {
				return true
			}
		}
		return false
	})
	if !sel.done {
		sel.done = true
		panic(targetPanic{iface{m.P.runtimeErrorString, "send on closed channel"}})
	}
	w := sel.chosen
	if w.isSend {
		return result(w.idx, nil, false)
	}
	m.raceAcquire(w.ch)
	return result(w.idx, w.val, w.ok)
}

// spawn starts an interpreted goroutine.
func (m *Machine) spawn(fr *frame, pos token.Pos, fn value, args []value) {
	s := &m.sched
	g := &goroutine{id: len(s.gs), wake: make(chan struct{}, 1), pos: pos, inRepo: fr.info.isRepo && !isHarnessFile(fr.info.file)}
	s.gs = append(s.gs, g)
	m.raceFork(m.curG(), g.id)
	s.wg.Add(1)
	go func() {
		defer s.wg.Done()
		<-g.wake
		if s.dead {
			return
		}
		defer func() {
			r := recover()
			g.done = true
			switch r := r.(type) {
			case nil:
			case killed:
				return
			default:
				// uncaught target panic or engine abort in a goroutine: crash the path
				if s.crash == nil {
					s.crash = r
				}
			}
			if s.dead {
				return
			}
			m.safeHandoff(g)
		}()
		root := &frame{m: m, g: g, fn: nil, info: &fnInfo{}, depth: 0}
		m.call(root, pos, fn, args)
	}()
	m.yield(fr, "go")
}

func isHarnessFile(f string) bool {
	for i := len(f) - 1; i >= 0; i-- {
		if f[i] == '/' {
			f = f[i+1:]
			break
		}
	}
	return len(f) > 9 && f[:9] == "zz_verif_"
}

// pickNext chooses the next goroutine to run after g gives up the baton.
func (m *Machine) pickNext(g *goroutine) *goroutine { return m.pickNextX(g, false) }

func (m *Machine) pickNextX(g *goroutine, exclude bool) *goroutine {
	s := &m.sched
	if s.crash != nil {
		return s.gs[0]
	}
	var cands []*goroutine
	n := len(s.gs)
	for k := 1; k <= n; k++ {
		c := s.gs[(g.id+k)%n]
		if c.done || (exclude && c == g) {
			continue
		}
		if c.blocked && !c.ready() {
			continue
		}
		cands = append(cands, c)
	}
	if len(cands) == 0 {
		return nil
	}
	if len(cands) > 1 {
		return cands[m.schedChoice(len(cands), "next")]
	}
	return cands[0]
}

// safeHandoff is handoff for a finished non-main goroutine: a path abort
// raised while choosing the next goroutine is forwarded to the main goroutine.
func (m *Machine) safeHandoff(g *goroutine) {
	s := &m.sched
	defer func() {
		if r := recover(); r != nil {
			if _, ok := r.(killed); ok {
				return
			}
			if s.crash == nil {
				s.crash = r
			}
			s.cur = s.gs[0]
			s.gs[0].wake <- struct{}{}
		}
	}()
	m.handoff(g)
}

// handoff passes the baton from g (which is done or blocked) to another goroutine.
func (m *Machine) handoff(g *goroutine) {
	s := &m.sched
	n := m.pickNext(g)
	if n == nil {
		// nothing can run: deadlock
		s.deadlock = true
		n = s.gs[0]
		if n == g {
			return
		}
	}
	if n == g {
		return
	}
	s.switches++
	s.cur = n
	n.wake <- struct{}{}
}

// block parks the current goroutine until ready() holds.
func (m *Machine) block(fr *frame, what string, ready func() bool) {
	m.blockX(fr, what, ready, false)
}

func (m *Machine) blockX(fr *frame, what string, ready func() bool, force bool) {
	s := &m.sched
	g := fr.g
	if g == nil {
		g = s.gs[0]
	}
	for first := true; ; first = false {
		forced := force && first
		if !forced && ready() {
			return
		}
		g.blocked, g.ready, g.what = true, ready, what
		n := m.pickNextX(g, forced)
		if n == g || (n == nil && forced) {
			g.blocked = false
			return
		}
		if n == nil {
			s.deadlock = true
			if g.id == 0 {
				panic(pathAbort{PathDeadlock, m.describeBlocked()})
			}
			n = s.gs[0]
		}
		s.switches++
		s.cur = n
		n.wake <- struct{}{}
		<-g.wake
		g.blocked = false
		if s.dead {
			panic(killed{})
		}
		if g.id == 0 {
			if s.crash != nil {
				c := s.crash
				s.crash = nil
				panic(c)
			}
			if s.deadlock {
				panic(pathAbort{PathDeadlock, m.describeBlocked()})
			}
		}
		s.cur = g
	}
}

func (m *Machine) describeBlocked() string {
	out := ""
	for _, g := range m.sched.gs {
		if !g.done && g.blocked {
			where := ""
			if g.pos.IsValid() {
				where = " created at " + m.P.Fset.Position(g.pos).String()
			}
			out += fmt.Sprintf("[g%d %s%s] ", g.id, g.what, where)
		}
	}
	return out
}

// yield is a potential preemption point (only when exploring schedules).
func (m *Machine) yield(fr *frame, what string) {
	s := &m.sched
	if !s.explore || s.preempts <= 0 || len(s.gs) < 2 {
		return
	}
	g := fr.g
	if g == nil {
		g = s.gs[0]
	}
	// is there anyone else who could run?
	other := false
	for _, c := range s.gs {
		if c != g && !c.done && (!c.blocked || c.ready()) {
			other = true
			break
		}
	}
	if !other {
		return
	}
	if m.schedChoice(2, "preempt@"+what) == 1 {
		s.preempts--
		m.blockX(fr, "preempted", func() bool { return true }, true)
	}
}

// quiesce lets all other goroutines run until none can make progress; used by
// harnesses through zzQuiesce. Returns the number of goroutines still blocked
// that were created by the code under test.
func (m *Machine) quiesce(fr *frame) int {
	for rounds := 0; rounds < 10000; rounds++ {
		progressed := false
		for _, c := range m.sched.gs {
			if c.id != 0 && !c.done && (!c.blocked || c.ready()) {
				progressed = true
			}
		}
		if !progressed {
			break
		}
		m.blockX(fr, "quiesce", func() bool { return true }, true)
	}
	n := 0
	for _, c := range m.sched.gs {
		if c.id != 0 && !c.done && c.inRepo {
			n++
		}
	}
	return n
}

// killAll terminates every parked goroutine at the end of a path.
func (m *Machine) killAll() {
	s := &m.sched
	s.dead = true
	for _, g := range s.gs[1:] {
		if !g.done {
			select {
			case g.wake <- struct{}{}:
			default:
			}
		}
	}
	s.wg.Wait()
}

// schedChoice picks among n alternatives at a scheduling point: 0 unless
// schedule exploration is on, in which case it is a symbolic choice.
func (m *Machine) schedChoice(n int, what string) int {
	if !m.sched.explore || n <= 1 {
		return 0
	}
	return m.choice(n, "sched")
}
