package interp

import (
	"encoding/json"
	"fmt"
	"go/token"
	"go/types"
	"math"
	"reflect"
	"regexp"
	"strconv"
	"strings"
	"sync"
	"unicode"
	"unicode/utf8"
	"unsafe"

	"golang.org/x/tools/go/ssa"

	"gosym/sym"
)

type intrinsicFn func(fr *frame, args []value) value

var intrinsics = map[string]intrinsicFn{}

func lookupIntrinsic(fn *ssa.Function) intrinsicFn {
	name := fn.String()
	if f, ok := intrinsics[name]; ok {
		return f
	}
	if strings.HasPrefix(fn.Name(), "zz") && len(fn.Name()) > 2 && fn.Name()[2] >= 'A' && fn.Name()[2] <= 'Z' {
		if f, ok := zzIntrinsics[fn.Name()]; ok {
			return f
		}
	}
	return nil
}

// A bogus "reflect" type-checker package for the engine's reflect.Type implementation.
var reflectTypesPackage = types.NewPackage("reflect", "reflect")

type opaqueType struct {
	types.Type
	name string
}

func (t *opaqueType) String() string { return t.name }

var rtypeType = func() *types.Named {
	obj := types.NewTypeName(token.NoPos, reflectTypesPackage, "rtype", nil)
	return types.NewNamed(obj, &opaqueType{nil, "rtype"}, nil)
}()

func initReflect(p *Program) {
	p.reflectPkg = &ssa.Package{Prog: p.Prog, Pkg: reflectTypesPackage, Members: map[string]ssa.Member{}}
	p.rtypeMethods = map[string]*ssa.Function{}
	for _, name := range []string{"Bits", "Elem", "Field", "In", "Key", "Kind", "Len", "Name", "NumField", "NumIn", "NumMethod", "NumOut", "Out", "PkgPath", "Size", "String", "Implements", "Comparable", "AssignableTo", "ConvertibleTo"} {
		sig := types.NewSignatureType(types.NewVar(token.NoPos, nil, "recv", rtypeType), nil, nil, nil, nil, false)
		fn := p.Prog.NewFunction(name, sig, "fake reflect method")
		fn.Pkg = p.reflectPkg
		p.rtypeMethods[name] = fn
	}
	if r := p.Prog.ImportedPackage("reflect"); r != nil {
		p.valueType = r.Pkg.Scope().Lookup("Value").Type()
		p.typeIface = r.Pkg.Scope().Lookup("Type").Type()
	}
}

// reflect.Value representation: structure{ rtype | (*value)(nil), payload, addr (*value) | uintptr(0) }

func makeRV(t types.Type, v value, addr *value) value {
	var a value = uintptr(0)
	if addr != nil {
		a = addr
	}
	return structure{rtype{t}, v, a}
}

func invalidRV() value { return structure{(*value)(nil), unsafe.Pointer(nil), uintptr(0)} }

func rvValid(v value) bool {
	_, ok := v.(structure)[0].(rtype)
	return ok
}

func rvT(m *Machine, v value) types.Type {
	rt, ok := v.(structure)[0].(rtype)
	if !ok {
		panic(m.reflectPanic("call of reflect.Value method on zero Value"))
	}
	return rt.t
}

func rvV(v value) value { return v.(structure)[1] }

func rvAddr(v value) *value {
	a, _ := v.(structure)[2].(*value)
	return a
}

func (m *Machine) reflectPanic(msg string) targetPanic {
	// *reflect.ValueError is what the real package panics with; an error-like
	// string value of runtime.errorString kind is close enough for recover().
	return targetPanic{iface{types.Typ[types.String], "reflect: " + msg}}
}

func makeReflectType(t types.Type) value { return iface{rtypeType, rtype{t}} }

func reflectKind(t types.Type) reflect.Kind {
	switch t := t.(type) {
	case *types.Named, *types.Alias:
		return reflectKind(t.Underlying())
	case *types.Basic:
		switch t.Kind() {
		case types.Bool:
			return reflect.Bool
		case types.Int:
			return reflect.Int
		case types.Int8:
			return reflect.Int8
		case types.Int16:
			return reflect.Int16
		case types.Int32:
			return reflect.Int32
		case types.Int64:
			return reflect.Int64
		case types.Uint:
			return reflect.Uint
		case types.Uint8:
			return reflect.Uint8
		case types.Uint16:
			return reflect.Uint16
		case types.Uint32:
			return reflect.Uint32
		case types.Uint64:
			return reflect.Uint64
		case types.Uintptr:
			return reflect.Uintptr
		case types.Float32:
			return reflect.Float32
		case types.Float64:
			return reflect.Float64
		case types.Complex64:
			return reflect.Complex64
		case types.Complex128:
			return reflect.Complex128
		case types.String:
			return reflect.String
		case types.UnsafePointer:
			return reflect.UnsafePointer
		}
	case *types.Array:
		return reflect.Array
	case *types.Chan:
		return reflect.Chan
	case *types.Signature:
		return reflect.Func
	case *types.Interface:
		return reflect.Interface
	case *types.Map:
		return reflect.Map
	case *types.Pointer:
		return reflect.Ptr
	case *types.Slice:
		return reflect.Slice
	case *types.Struct:
		return reflect.Struct
	}
	if t == rtypeType {
		return reflect.Ptr
	}
	panic(engineError{fmt.Sprint("unexpected type: ", t)})
}

func kindV(k reflect.Kind) value { return uint(k) }

func rvKind(v value) reflect.Kind {
	rt, ok := v.(structure)[0].(rtype)
	if !ok {
		return reflect.Invalid
	}
	return reflectKind(rt.t)
}

func (m *Machine) rvElem(v value) value {
	t := rvT(m, v)
	switch u := t.Underlying().(type) {
	case *types.Pointer:
		p := rvV(v).(*value)
		if p == nil {
			return invalidRV()
		}
		return makeRV(u.Elem(), load(u.Elem(), p), p)
	case *types.Interface:
		it := rvV(v).(iface)
		if it.t == nil {
			return invalidRV()
		}
		return makeRV(it.t, it.v, nil)
	}
	if t == rtypeType {
		return invalidRV()
	}
	panic(m.reflectPanic("call of reflect.Value.Elem on " + reflectKind(t).String() + " Value"))
}

func (m *Machine) rvInterface(v value) value {
	t := rvT(m, v)
	if _, ok := t.Underlying().(*types.Interface); ok {
		return rvV(v)
	}
	return iface{t, rvV(v)}
}

func (m *Machine) rvIsNil(v value) value {
	t := rvT(m, v)
	switch x := rvV(v).(type) {
	case *value:
		return x == nil
	case *omap:
		return x == nil
	case []value:
		return x == nil
	case *ichan:
		return x == nil
	case iface:
		return x.t == nil
	case *ssa.Function:
		return x == nil
	case *closure:
		return x == nil
	case *nativeFn:
		return x == nil
	case *nativeObj:
		return x == nil
	case unsafe.Pointer:
		return x == nil
	}
	panic(m.reflectPanic("call of reflect.Value.IsNil on " + reflectKind(t).String() + " Value"))
}

func (m *Machine) structFieldValue(t *types.Struct, i int) value {
	f := t.Field(i)
	pkgPath := ""
	if !f.Exported() && f.Pkg() != nil {
		pkgPath = f.Pkg().Path()
	}
	return structure{
		f.Name(),
		pkgPath,
		makeReflectType(f.Type()),
		t.Tag(i),
		uintptr(0),
		[]value{i},
		f.Anonymous(),
	}
}

func init() {
	reg := func(name string, f intrinsicFn) { intrinsics[name] = f }

	// ---- reflect
	reg("reflect.ValueOf", func(fr *frame, a []value) value {
		it := a[0].(iface)
		if it.t == nil {
			return invalidRV()
		}
		return makeRV(it.t, it.v, nil)
	})
	reg("reflect.TypeOf", func(fr *frame, a []value) value {
		it := a[0].(iface)
		if it.t == nil {
			return iface{}
		}
		return makeReflectType(it.t)
	})
	reg("reflect.Indirect", func(fr *frame, a []value) value {
		if rvKind(a[0]) != reflect.Ptr {
			return a[0]
		}
		return fr.m.rvElem(a[0])
	})
	reg("reflect.New", func(fr *frame, a []value) value {
		t := a[0].(iface).v.(rtype).t
		cell := zero(t)
		return makeRV(types.NewPointer(t), &cell, nil)
	})
	reg("reflect.Zero", func(fr *frame, a []value) value {
		t := a[0].(iface).v.(rtype).t
		return makeRV(t, zero(t), nil)
	})
	reg("reflect.MakeSlice", func(fr *frame, a []value) value {
		t := a[0].(iface).v.(rtype).t
		n, c := asInt64(a[1]), asInt64(a[2])
		sl := make([]value, c)
		el := t.Underlying().(*types.Slice).Elem()
		for i := range sl {
			sl[i] = zero(el)
		}
		return makeRV(t, sl[:n], nil)
	})
	reg("reflect.DeepEqual", func(fr *frame, a []value) value {
		return fr.m.deepEqual(a[0], a[1], 0)
	})
	reg("(reflect.Value).Kind", func(fr *frame, a []value) value { return kindV(rvKind(a[0])) })
	reg("(reflect.Value).IsValid", func(fr *frame, a []value) value { return rvValid(a[0]) })
	reg("(reflect.Value).IsNil", func(fr *frame, a []value) value { return fr.m.rvIsNil(a[0]) })
	reg("(reflect.Value).Elem", func(fr *frame, a []value) value { return fr.m.rvElem(a[0]) })
	reg("(reflect.Value).Interface", func(fr *frame, a []value) value { return fr.m.rvInterface(a[0]) })
	reg("(reflect.Value).CanInterface", func(fr *frame, a []value) value { return true })
	reg("(reflect.Value).Type", func(fr *frame, a []value) value { return makeReflectType(rvT(fr.m, a[0])) })
	reg("(reflect.Value).Len", func(fr *frame, a []value) value {
		switch v := rvV(a[0]).(type) {
		case string:
			return len(v)
		case symstr:
			return len(v)
		case array:
			return len(v)
		case []value:
			return len(v)
		case *omap:
			return v.len()
		case *ichan:
			if v == nil {
				return 0
			}
			return len(v.buf)
		}
		panic(fr.m.reflectPanic("call of reflect.Value.Len on " + rvKind(a[0]).String() + " Value"))
	})
	reg("(reflect.Value).Index", func(fr *frame, a []value) value {
		m := fr.m
		i := int(asInt64(a[1]))
		t := rvT(m, a[0])
		switch v := rvV(a[0]).(type) {
		case []value:
			if i < 0 || i >= len(v) {
				panic(m.reflectPanic("slice index out of range"))
			}
			el := t.Underlying().(*types.Slice).Elem()
			return makeRV(el, load(el, &v[i]), &v[i])
		case array:
			if i < 0 || i >= len(v) {
				panic(m.reflectPanic("array index out of range"))
			}
			el := t.Underlying().(*types.Array).Elem()
			var addr *value
			if pa := rvAddr(a[0]); pa != nil {
				addr = &(*pa).(array)[i]
			}
			return makeRV(el, v[i], addr)
		case string, symstr:
			b := strBytes(v)
			if i < 0 || i >= len(b) {
				panic(m.reflectPanic("string index out of range"))
			}
			return makeRV(types.Typ[types.Uint8], b[i], nil)
		}
		panic(m.reflectPanic("call of reflect.Value.Index on " + rvKind(a[0]).String() + " Value"))
	})
	reg("(reflect.Value).Field", func(fr *frame, a []value) value {
		m := fr.m
		t := rvT(m, a[0])
		st, ok := t.Underlying().(*types.Struct)
		if !ok {
			panic(m.reflectPanic("call of reflect.Value.Field on " + rvKind(a[0]).String() + " Value"))
		}
		i := int(asInt64(a[1]))
		if i < 0 || i >= st.NumFields() {
			panic(m.reflectPanic("Field index out of range"))
		}
		var addr *value
		if pa := rvAddr(a[0]); pa != nil {
			addr = &(*pa).(structure)[i]
		}
		return makeRV(st.Field(i).Type(), rvV(a[0]).(structure)[i], addr)
	})
	reg("(reflect.Value).NumField", func(fr *frame, a []value) value {
		st, ok := rvT(fr.m, a[0]).Underlying().(*types.Struct)
		if !ok {
			panic(fr.m.reflectPanic("call of reflect.Value.NumField on " + rvKind(a[0]).String() + " Value"))
		}
		return st.NumFields()
	})
	reg("(reflect.Value).FieldByName", func(fr *frame, a []value) value {
		m := fr.m
		st, ok := rvT(m, a[0]).Underlying().(*types.Struct)
		if !ok {
			panic(m.reflectPanic("call of reflect.Value.FieldByName on " + rvKind(a[0]).String() + " Value"))
		}
		name, ok := a[1].(string)
		if !ok {
			panic(unsupported("FieldByName with symbolic name"))
		}
		for i := 0; i < st.NumFields(); i++ {
			if st.Field(i).Name() == name {
				var addr *value
				if pa := rvAddr(a[0]); pa != nil {
					addr = &(*pa).(structure)[i]
				}
				return makeRV(st.Field(i).Type(), rvV(a[0]).(structure)[i], addr)
			}
		}
		// promoted fields through embedded structs (one level)
		for i := 0; i < st.NumFields(); i++ {
			f := st.Field(i)
			if !f.Embedded() {
				continue
			}
			if est, ok := f.Type().Underlying().(*types.Struct); ok {
				for j := 0; j < est.NumFields(); j++ {
					if est.Field(j).Name() == name {
						inner := rvV(a[0]).(structure)[i].(structure)
						return makeRV(est.Field(j).Type(), inner[j], nil)
					}
				}
			}
		}
		return invalidRV()
	})
	reg("(reflect.Value).MapIndex", func(fr *frame, a []value) value {
		m := fr.m
		mt, ok := rvT(m, a[0]).Underlying().(*types.Map)
		if !ok {
			panic(m.reflectPanic("call of reflect.Value.MapIndex on " + rvKind(a[0]).String() + " Value"))
		}
		om := rvV(a[0]).(*omap)
		key := rvV(a[1])
		if _, isI := mt.Key().Underlying().(*types.Interface); isI {
			if _, already := key.(iface); !already {
				key = iface{rvT(m, a[1]), key}
			}
		}
		v, found := om.lookup(m, key)
		if !found {
			return invalidRV()
		}
		return makeRV(mt.Elem(), v, nil)
	})
	reg("(reflect.Value).MapKeys", func(fr *frame, a []value) value {
		m := fr.m
		mt := rvT(m, a[0]).Underlying().(*types.Map)
		om := rvV(a[0]).(*omap)
		var keys []value
		it := &mapIter{om: om, start: m.mapRangeStart(om)}
		for {
			t := it.next(fr)
			if !t[0].(bool) {
				break
			}
			keys = append(keys, makeRV(mt.Key(), t[1], nil))
		}
		return keys
	})
	reg("(reflect.Value).Int", func(fr *frame, a []value) value {
		v := rvV(a[0])
		if t, ok := v.(*sym.Term); ok {
			return lower(types.Typ[types.Int64], fr.m.ctx().Conv(sym.OpSExt, sym.BV64, t))
		}
		switch rvKind(a[0]) {
		case reflect.Int, reflect.Int8, reflect.Int16, reflect.Int32, reflect.Int64:
			return asInt64(v)
		}
		panic(fr.m.reflectPanic("call of reflect.Value.Int on " + rvKind(a[0]).String() + " Value"))
	})
	reg("(reflect.Value).Uint", func(fr *frame, a []value) value {
		v := rvV(a[0])
		if t, ok := v.(*sym.Term); ok {
			return lower(types.Typ[types.Uint64], fr.m.ctx().Conv(sym.OpZExt, sym.BV64, t))
		}
		switch rvKind(a[0]) {
		case reflect.Uint, reflect.Uint8, reflect.Uint16, reflect.Uint32, reflect.Uint64, reflect.Uintptr:
			return asUint64(v)
		}
		panic(fr.m.reflectPanic("call of reflect.Value.Uint on " + rvKind(a[0]).String() + " Value"))
	})
	reg("(reflect.Value).Float", func(fr *frame, a []value) value {
		v := rvV(a[0])
		if t, ok := v.(*sym.Term); ok {
			return lower(types.Typ[types.Float64], fr.m.ctx().Conv(sym.OpFPToFP, sym.F64, t))
		}
		switch x := v.(type) {
		case float32:
			return float64(x)
		case float64:
			return x
		}
		panic(fr.m.reflectPanic("call of reflect.Value.Float on " + rvKind(a[0]).String() + " Value"))
	})
	reg("(reflect.Value).Bool", func(fr *frame, a []value) value { return rvV(a[0]) })
	reg("(reflect.Value).String", func(fr *frame, a []value) value {
		if rvKind(a[0]) == reflect.String {
			return rvV(a[0])
		}
		if !rvValid(a[0]) {
			return "<invalid Value>"
		}
		return "<" + typeStr(rvT(fr.m, a[0])) + " Value>"
	})
	reg("(reflect.Value).CanSet", func(fr *frame, a []value) value { return rvAddr(a[0]) != nil })
	reg("(reflect.Value).CanAddr", func(fr *frame, a []value) value { return rvAddr(a[0]) != nil })
	reg("(reflect.Value).Addr", func(fr *frame, a []value) value {
		p := rvAddr(a[0])
		if p == nil {
			panic(fr.m.reflectPanic("reflect.Value.Addr of unaddressable value"))
		}
		return makeRV(types.NewPointer(rvT(fr.m, a[0])), p, nil)
	})
	reg("(reflect.Value).Set", func(fr *frame, a []value) value {
		m := fr.m
		p := rvAddr(a[0])
		if p == nil {
			panic(m.reflectPanic("reflect.Value.Set using unaddressable value"))
		}
		dt := rvT(m, a[0])
		st := rvT(m, a[1])
		v := rvV(a[1])
		if _, isI := dt.Underlying().(*types.Interface); isI {
			if _, srcI := st.Underlying().(*types.Interface); !srcI {
				v = iface{st, v}
			}
		} else if !types.AssignableTo(st, dt) {
			panic(m.reflectPanic(fmt.Sprintf("reflect.Set: value of type %s is not assignable to type %s", typeStr(st), typeStr(dt))))
		}
		store(dt, p, copyVal(v))
		return nil
	})
	reg("(reflect.Value).Pointer", func(fr *frame, a []value) value {
		switch v := rvV(a[0]).(type) {
		case *value:
			return uintptr(unsafe.Pointer(v))
		case *omap:
			return uintptr(unsafe.Pointer(v))
		case []value:
			if len(v) == 0 {
				return uintptr(0)
			}
			return uintptr(unsafe.Pointer(&v[0]))
		case *ssa.Function:
			return uintptr(unsafe.Pointer(v))
		case *closure:
			return uintptr(unsafe.Pointer(v))
		}
		panic(unsupported("reflect.Value.Pointer on %T", rvV(a[0])))
	})
	rt := func(a []value) types.Type { return a[0].(rtype).t }
	reg("(reflect.rtype).Kind", func(fr *frame, a []value) value { return kindV(reflectKind(rt(a))) })
	reg("(reflect.rtype).String", func(fr *frame, a []value) value { return typeStr(rt(a)) })
	reg("(reflect.rtype).Name", func(fr *frame, a []value) value {
		switch t := rt(a).(type) {
		case *types.Named:
			return t.Obj().Name()
		case *types.Basic:
			return t.Name()
		}
		return ""
	})
	reg("(reflect.rtype).PkgPath", func(fr *frame, a []value) value {
		if t, ok := rt(a).(*types.Named); ok && t.Obj().Pkg() != nil {
			return t.Obj().Pkg().Path()
		}
		return ""
	})
	reg("(reflect.rtype).Elem", func(fr *frame, a []value) value {
		switch t := rt(a).Underlying().(type) {
		case *types.Pointer:
			return makeReflectType(t.Elem())
		case *types.Slice:
			return makeReflectType(t.Elem())
		case *types.Array:
			return makeReflectType(t.Elem())
		case *types.Map:
			return makeReflectType(t.Elem())
		case *types.Chan:
			return makeReflectType(t.Elem())
		}
		panic(fr.m.reflectPanic("Elem of invalid type " + typeStr(rt(a))))
	})
	reg("(reflect.rtype).Key", func(fr *frame, a []value) value {
		if t, ok := rt(a).Underlying().(*types.Map); ok {
			return makeReflectType(t.Key())
		}
		panic(fr.m.reflectPanic("Key of non-map type " + typeStr(rt(a))))
	})
	reg("(reflect.rtype).NumField", func(fr *frame, a []value) value {
		if t, ok := rt(a).Underlying().(*types.Struct); ok {
			return t.NumFields()
		}
		panic(fr.m.reflectPanic("NumField of non-struct type " + typeStr(rt(a))))
	})
	reg("(reflect.rtype).Field", func(fr *frame, a []value) value {
		t, ok := rt(a).Underlying().(*types.Struct)
		if !ok {
			panic(fr.m.reflectPanic("Field of non-struct type " + typeStr(rt(a))))
		}
		i := int(asInt64(a[1]))
		if i < 0 || i >= t.NumFields() {
			panic(fr.m.reflectPanic("Field index out of bounds"))
		}
		return fr.m.structFieldValue(t, i)
	})
	reg("(reflect.rtype).Len", func(fr *frame, a []value) value {
		return int(rt(a).Underlying().(*types.Array).Len())
	})
	reg("(reflect.rtype).NumMethod", func(fr *frame, a []value) value {
		return fr.m.P.Prog.MethodSets.MethodSet(rt(a)).Len()
	})
	reg("(reflect.rtype).Comparable", func(fr *frame, a []value) value { return types.Comparable(rt(a)) })
	reg("(reflect.rtype).Implements", func(fr *frame, a []value) value {
		u := a[1].(iface).v.(rtype).t.Underlying().(*types.Interface)
		return types.Implements(rt(a), u)
	})
	reg("(reflect.rtype).AssignableTo", func(fr *frame, a []value) value {
		return types.AssignableTo(rt(a), a[1].(iface).v.(rtype).t)
	})

	// ---- sync
	reg("(*sync.Mutex).Lock", func(fr *frame, a []value) value {
		fr.m.yield(fr, "lock")
		st := (*a[0].(*value)).(structure)
		fr.m.block(fr, "sync.Mutex.Lock", func() bool { return st[0].(int32) == 0 })
		st[0] = int32(1)
		fr.m.raceAcquire(a[0].(*value))
		return nil
	})
	reg("(*sync.Mutex).TryLock", func(fr *frame, a []value) value {
		st := (*a[0].(*value)).(structure)
		if st[0].(int32) == 0 {
			st[0] = int32(1)
			return true
		}
		return false
	})
	reg("(*sync.Mutex).Unlock", func(fr *frame, a []value) value {
		st := (*a[0].(*value)).(structure)
		if st[0].(int32) == 0 {
			panic(targetPanic{iface{types.Typ[types.String], "fatal error: sync: unlock of unlocked mutex"}})
		}
		st[0] = int32(0)
		fr.m.raceRelease(a[0].(*value))
		fr.m.yield(fr, "unlock")
		return nil
	})
	reg("(*sync.RWMutex).Lock", func(fr *frame, a []value) value {
		fr.m.yield(fr, "lock")
		st := (*a[0].(*value)).(structure)
		// fields: w Mutex, writerSem, readerSem uint32, readerCount, readerWait atomic.Int32
		w := st[0].(structure)
		fr.m.block(fr, "sync.RWMutex.Lock", func() bool { return w[0].(int32) == 0 && st[1].(uint32) == 0 })
		w[0] = int32(1)
		return nil
	})
	reg("(*sync.RWMutex).Unlock", func(fr *frame, a []value) value {
		st := (*a[0].(*value)).(structure)
		st[0].(structure)[0] = int32(0)
		fr.m.yield(fr, "unlock")
		return nil
	})
	reg("(*sync.RWMutex).RLock", func(fr *frame, a []value) value {
		fr.m.yield(fr, "rlock")
		st := (*a[0].(*value)).(structure)
		w := st[0].(structure)
		fr.m.block(fr, "sync.RWMutex.RLock", func() bool { return w[0].(int32) == 0 })
		st[1] = st[1].(uint32) + 1
		return nil
	})
	reg("(*sync.RWMutex).RUnlock", func(fr *frame, a []value) value {
		st := (*a[0].(*value)).(structure)
		st[1] = st[1].(uint32) - 1
		fr.m.yield(fr, "runlock")
		return nil
	})
	reg("(*sync.Once).Do", func(fr *frame, a []value) value {
		st := (*a[0].(*value)).(structure)
		// layout differs between releases; use the first field as our done flag
		if _, ok := st[0].(bool); !ok {
			st[0] = false
		}
		if st[0].(bool) {
			return nil
		}
		st[0] = true
		fr.m.call(fr, token.NoPos, a[1], nil)
		return nil
	})
	// sync.Map: an ordered map of the engine keyed by interface values, one per
	// receiver (its real implementation rests on unsafe pointers and atomics).
	syncMap := func(fr *frame, recv value) *omap {
		m := fr.m
		if m.objs == nil {
			m.objs = map[string]value{}
		}
		k := fmt.Sprintf("syncmap%p", recv.(*value))
		if c, ok := m.objs[k]; ok {
			return c.(*omap)
		}
		om := makeMap(types.NewInterfaceType(nil, nil))
		m.objs[k] = om
		return om
	}
	reg("(*sync.Map).Load", func(fr *frame, a []value) value {
		om := syncMap(fr, a[0])
		fr.m.raceAcquire(om)
		v, ok := om.lookup(fr.m, a[1])
		if !ok {
			return tuple{iface{}, false}
		}
		return tuple{v, true}
	})
	reg("(*sync.Map).Store", func(fr *frame, a []value) value {
		om := syncMap(fr, a[0])
		om.insert(fr.m, a[1], a[2])
		fr.m.raceRelease(om)
		return nil
	})
	reg("(*sync.Map).LoadOrStore", func(fr *frame, a []value) value {
		om := syncMap(fr, a[0])
		fr.m.raceAcquire(om)
		if v, ok := om.lookup(fr.m, a[1]); ok {
			return tuple{v, true}
		}
		om.insert(fr.m, a[1], a[2])
		fr.m.raceRelease(om)
		return tuple{a[2], false}
	})
	reg("(*sync.Map).LoadAndDelete", func(fr *frame, a []value) value {
		om := syncMap(fr, a[0])
		fr.m.raceAcquire(om)
		v, ok := om.lookup(fr.m, a[1])
		if !ok {
			return tuple{iface{}, false}
		}
		om.delete(fr.m, a[1])
		fr.m.raceRelease(om)
		return tuple{v, true}
	})
	reg("(*sync.Map).Delete", func(fr *frame, a []value) value {
		om := syncMap(fr, a[0])
		om.delete(fr.m, a[1])
		fr.m.raceRelease(om)
		return nil
	})
	reg("(*sync.Map).Clear", func(fr *frame, a []value) value {
		om := syncMap(fr, a[0])
		om.clear()
		fr.m.raceRelease(om)
		return nil
	})
	reg("(*sync.Map).Range", func(fr *frame, a []value) value {
		om := syncMap(fr, a[0])
		fr.m.raceAcquire(om)
		ents := append([]*mentry(nil), om.ents...)
		for _, e := range ents {
			if e == nil || e.dead {
				continue
			}
			if r := fr.m.call(fr, token.NoPos, a[1], []value{e.key, e.val}); r != true {
				break
			}
		}
		return nil
	})
	// sync.Pool: a LIFO free list per receiver (one of the behaviours the real
	// pool can show: no GC in between, one P); New is the struct's last field.
	poolList := func(fr *frame, recv value) *[]value {
		m := fr.m
		if m.objs == nil {
			m.objs = map[string]value{}
		}
		k := fmt.Sprintf("syncpool%p", recv.(*value))
		if c, ok := m.objs[k]; ok {
			return c.(*[]value)
		}
		l := new([]value)
		m.objs[k] = l
		return l
	}
	reg("(*sync.Pool).Get", func(fr *frame, a []value) value {
		l := poolList(fr, a[0])
		if n := len(*l); n > 0 {
			v := (*l)[n-1]
			*l = (*l)[:n-1]
			// a Put happens before the Get that returns the item
			fr.m.raceAcquire(l)
			return v
		}
		st := (*a[0].(*value)).(structure)
		newFn := st[len(st)-1]
		if newFn == nil {
			return iface{}
		}
		if c, ok := newFn.(*closure); ok && c == nil {
			return iface{}
		}
		return fr.m.call(fr, token.NoPos, newFn, nil)
	})
	reg("(*sync.Pool).Put", func(fr *frame, a []value) value {
		if x, ok := a[1].(iface); ok && x.t == nil {
			return nil
		}
		l := poolList(fr, a[0])
		*l = append(*l, a[1])
		fr.m.raceRelease(l)
		return nil
	})
	reg("(*sync.WaitGroup).Add", func(fr *frame, a []value) value {
		cell := a[0].(*value)
		cnt := fr.m.wgCount(cell)
		*cnt += int(asInt64(a[1]))
		return nil
	})
	reg("(*sync.WaitGroup).Done", func(fr *frame, a []value) value {
		cnt := fr.m.wgCount(a[0].(*value))
		*cnt--
		fr.m.raceRelease(a[0].(*value))
		fr.m.yield(fr, "wg.Done")
		return nil
	})
	reg("(*sync.WaitGroup).Wait", func(fr *frame, a []value) value {
		cnt := fr.m.wgCount(a[0].(*value))
		fr.m.block(fr, "sync.WaitGroup.Wait", func() bool { return *cnt <= 0 })
		fr.m.raceAcquire(a[0].(*value))
		return nil
	})
	atomicField := func(a []value) *value {
		st := (*a[0].(*value)).(structure)
		return &st[len(st)-1]
	}
	_ = atomicField
	reg("(*sync/atomic.Uint64).Add", func(fr *frame, a []value) value {
		p := atomicField(a)
		*p = (*p).(uint64) + a[1].(uint64)
		return *p
	})
	reg("(*sync/atomic.Uint64).Load", func(fr *frame, a []value) value { return *atomicField(a) })
	reg("(*sync/atomic.Uint64).Store", func(fr *frame, a []value) value { *atomicField(a) = a[1]; return nil })
	reg("(*sync/atomic.Int64).Add", func(fr *frame, a []value) value {
		p := atomicField(a)
		*p = (*p).(int64) + a[1].(int64)
		return *p
	})
	reg("(*sync/atomic.Int64).Load", func(fr *frame, a []value) value { return *atomicField(a) })
	reg("(*sync/atomic.Int32).Add", func(fr *frame, a []value) value {
		p := atomicField(a)
		*p = (*p).(int32) + a[1].(int32)
		return *p
	})
	reg("(*sync/atomic.Int32).Load", func(fr *frame, a []value) value { return *atomicField(a) })
	reg("(*sync/atomic.Int32).Store", func(fr *frame, a []value) value { *atomicField(a) = a[1]; return nil })
	reg("(*sync/atomic.Bool).Load", func(fr *frame, a []value) value { return (*atomicField(a)).(uint32) != 0 })
	reg("(*sync/atomic.Bool).Store", func(fr *frame, a []value) value {
		if a[1].(bool) {
			*atomicField(a) = uint32(1)
		} else {
			*atomicField(a) = uint32(0)
		}
		return nil
	})
	reg("sync/atomic.AddInt32", func(fr *frame, a []value) value {
		p := a[0].(*value)
		*p = (*p).(int32) + a[1].(int32)
		return *p
	})
	reg("sync/atomic.AddInt64", func(fr *frame, a []value) value {
		p := a[0].(*value)
		*p = (*p).(int64) + a[1].(int64)
		return *p
	})
	reg("sync/atomic.LoadInt32", func(fr *frame, a []value) value { return *a[0].(*value) })
	reg("sync/atomic.LoadInt64", func(fr *frame, a []value) value { return *a[0].(*value) })
	reg("sync/atomic.StoreInt32", func(fr *frame, a []value) value { *a[0].(*value) = a[1]; return nil })

	// ---- math
	reg("math.IsNaN", func(fr *frame, a []value) value {
		if t, ok := a[0].(*sym.Term); ok {
			return lowerBool(fr.m.ctx().Un(sym.OpFIsNaN, t))
		}
		return math.IsNaN(a[0].(float64))
	})
	reg("math.IsInf", func(fr *frame, a []value) value {
		f, ok := a[0].(float64)
		if !ok {
			c := fr.m.ctx()
			t := a[0].(*sym.Term)
			sign := int(asInt64(a[1]))
			pinf := c.Bin(sym.OpFEq, t, c.Const(sym.F64, math.Float64bits(math.Inf(1))))
			ninf := c.Bin(sym.OpFEq, t, c.Const(sym.F64, math.Float64bits(math.Inf(-1))))
			switch {
			case sign > 0:
				return lowerBool(pinf)
			case sign < 0:
				return lowerBool(ninf)
			}
			return lowerBool(c.Or(pinf, ninf))
		}
		return math.IsInf(f, int(asInt64(a[1])))
	})
	reg("math.Float64bits", func(fr *frame, a []value) value {
		if _, ok := a[0].(*sym.Term); ok {
			panic(unsupported("math.Float64bits of symbolic float"))
		}
		return math.Float64bits(a[0].(float64))
	})
	reg("math.Float64frombits", func(fr *frame, a []value) value {
		if t, ok := a[0].(*sym.Term); ok {
			return fr.m.ctx().Conv(sym.OpBitsToFP, sym.F64, t)
		}
		return math.Float64frombits(a[0].(uint64))
	})
	reg("math.Float32bits", func(fr *frame, a []value) value { return math.Float32bits(a[0].(float32)) })
	reg("math.Float32frombits", func(fr *frame, a []value) value { return math.Float32frombits(a[0].(uint32)) })
	reg("math.Inf", func(fr *frame, a []value) value { return math.Inf(int(asInt64(a[0]))) })
	reg("math.NaN", func(fr *frame, a []value) value { return math.NaN() })
	for name, f := range map[string]func(float64) float64{"math.Floor": math.Floor, "math.Ceil": math.Ceil, "math.Trunc": math.Trunc, "math.Abs": math.Abs, "math.Sqrt": math.Sqrt, "math.Log": math.Log, "math.Exp": math.Exp, "math.Log2": math.Log2, "math.Log10": math.Log10} {
		f := f
		name := name
		reg(name, func(fr *frame, a []value) value {
			x, ok := a[0].(float64)
			if !ok {
				panic(unsupported("%s of symbolic float", name))
			}
			return f(x)
		})
	}
	reg("math.Max", func(fr *frame, a []value) value {
		x, ok1 := a[0].(float64)
		y, ok2 := a[1].(float64)
		if !ok1 || !ok2 {
			panic(unsupported("math.Max of symbolic float"))
		}
		return math.Max(x, y)
	})
	reg("math.Min", func(fr *frame, a []value) value {
		x, ok1 := a[0].(float64)
		y, ok2 := a[1].(float64)
		if !ok1 || !ok2 {
			panic(unsupported("math.Min of symbolic float"))
		}
		return math.Min(x, y)
	})
	reg("math.Pow", func(fr *frame, a []value) value { return math.Pow(a[0].(float64), a[1].(float64)) })
	reg("math.Mod", func(fr *frame, a []value) value { return math.Mod(a[0].(float64), a[1].(float64)) })

	// ---- strconv float (concrete only)
	reg("strconv.ParseFloat", func(fr *frame, a []value) value {
		s, ok := a[0].(string)
		if !ok {
			panic(unsupported("strconv.ParseFloat of symbolic text"))
		}
		f, err := strconv.ParseFloat(s, int(asInt64(a[1])))
		return tuple{f, fr.m.nativeError(err)}
	})
	reg("strconv.FormatFloat", func(fr *frame, a []value) value {
		f, ok := a[0].(float64)
		if !ok {
			return fr.m.opaqueText(a[0])
		}
		return strconv.FormatFloat(f, a[1].(byte), int(asInt64(a[2])), int(asInt64(a[3])))
	})

	// ---- internal/bytealg (assembly in the real build)
	reg("internal/bytealg.IndexByteString", func(fr *frame, a []value) value { return fr.m.indexByte(strBytes(a[0]), a[1]) })
	reg("internal/bytealg.IndexByte", func(fr *frame, a []value) value { return fr.m.indexByte(a[0].([]value), a[1]) })
	reg("internal/bytealg.CountString", func(fr *frame, a []value) value { return fr.m.countByte(strBytes(a[0]), a[1]) })
	reg("internal/bytealg.Count", func(fr *frame, a []value) value { return fr.m.countByte(a[0].([]value), a[1]) })
	reg("internal/bytealg.Equal", func(fr *frame, a []value) value {
		return fr.m.truth(fr.m.bytesEq(a[0].([]value), a[1].([]value)))
	})
	reg("internal/bytealg.Compare", func(fr *frame, a []value) value { return fr.m.bytesCompare(a[0].([]value), a[1].([]value)) })
	reg("internal/bytealg.IndexString", func(fr *frame, a []value) value { return fr.m.indexSub(strBytes(a[0]), strBytes(a[1])) })
	reg("internal/bytealg.Index", func(fr *frame, a []value) value { return fr.m.indexSub(a[0].([]value), a[1].([]value)) })
	reg("internal/bytealg.LastIndexByteString", func(fr *frame, a []value) value {
		b := strBytes(a[0])
		for i := len(b) - 1; i >= 0; i-- {
			if fr.m.truth(fr.m.byteEq(b[i], a[1])) {
				return i
			}
		}
		return -1
	})
	reg("internal/bytealg.MakeNoZero", func(fr *frame, a []value) value {
		n := int(asInt64(a[0]))
		s := make([]value, n)
		for i := range s {
			s[i] = uint8(0)
		}
		return s
	})
	reg("bytes.Equal", func(fr *frame, a []value) value { return fr.m.bytesEq(a[0].([]value), a[1].([]value)) })
	reg("bytes.Compare", func(fr *frame, a []value) value { return fr.m.bytesCompare(a[0].([]value), a[1].([]value)) })
	reg("strings.Compare", func(fr *frame, a []value) value { return fr.m.bytesCompare(strBytes(a[0]), strBytes(a[1])) })
	reg("internal/stringslite.Index", func(fr *frame, a []value) value { return fr.m.indexSub(strBytes(a[0]), strBytes(a[1])) })
	reg("internal/stringslite.IndexByte", func(fr *frame, a []value) value { return fr.m.indexByte(strBytes(a[0]), a[1]) })
	reg("strings.Index", func(fr *frame, a []value) value { return fr.m.indexSub(strBytes(a[0]), strBytes(a[1])) })
	reg("strings.IndexByte", func(fr *frame, a []value) value { return fr.m.indexByte(strBytes(a[0]), a[1]) })
	reg("strings.HasPrefix", func(fr *frame, a []value) value {
		s, p := strBytes(a[0]), strBytes(a[1])
		if len(s) < len(p) {
			return false
		}
		return fr.m.bytesEq(s[:len(p)], p)
	})
	reg("strings.HasSuffix", func(fr *frame, a []value) value {
		s, p := strBytes(a[0]), strBytes(a[1])
		if len(s) < len(p) {
			return false
		}
		return fr.m.bytesEq(s[len(s)-len(p):], p)
	})
	reg("(*strings.Builder).String", func(fr *frame, a []value) value {
		st := (*a[0].(*value)).(structure)
		buf := st[1].([]value)
		return normStr(append(symstr(nil), buf...))
	})
	reg("(*strings.Builder).copyCheck", func(fr *frame, a []value) value { return nil })
	reg("strings.Clone", func(fr *frame, a []value) value { return a[0] })
	reg("unsafe.String", func(fr *frame, a []value) value { panic(unsupported("unsafe.String")) })
	reg("internal/abi.NoEscape", func(fr *frame, a []value) value { return a[0] })
	reg("internal/abi.Escape", func(fr *frame, a []value) value { return a[0] })
	reg("internal/race.Enabled", func(fr *frame, a []value) value { return false })
	reg("internal/godebug.New", func(fr *frame, a []value) value { return (*value)(nil) })
	reg("(*internal/godebug.Setting).Value", func(fr *frame, a []value) value { return "" })
	reg("(*internal/godebug.Setting).IncNonDefault", func(fr *frame, a []value) value { return nil })

	// ---- regexp (native objects; the repo's patterns are matched natively on
	// concrete text and by explicit models on symbolic text)
	reg("regexp.MustCompile", func(fr *frame, a []value) value {
		re := regexp.MustCompile(a[0].(string))
		var cell value = &nativeObj{re}
		return &cell
	})
	reg("regexp.Compile", func(fr *frame, a []value) value {
		re, err := regexp.Compile(a[0].(string))
		if err != nil {
			return tuple{(*value)(nil), fr.m.nativeError(err)}
		}
		var cell value = &nativeObj{re}
		return tuple{&cell, iface{}}
	})
	reg("(*regexp.Regexp).MatchString", func(fr *frame, a []value) value { return fr.m.reMatchString(regexpOf(a[0]), a[1]) })
	reg("(*regexp.Regexp).FindAllIndex", func(fr *frame, a []value) value {
		return fr.m.reFindAllIndex(regexpOf(a[0]), a[1].([]value), int(asInt64(a[2])))
	})
	reg("(*regexp.Regexp).Split", func(fr *frame, a []value) value {
		return fr.m.reSplit(regexpOf(a[0]), a[1], int(asInt64(a[2])))
	})
	reg("(*regexp.Regexp).String", func(fr *frame, a []value) value { return regexpOf(a[0]).String() })

	// ---- unicode/utf8 (table-driven in the real package; modelled by range forks)
	reg("unicode/utf8.DecodeRune", func(fr *frame, a []value) value {
		b := a[0].([]value)
		if len(b) == 0 {
			return tuple{int32(0xFFFD), 0}
		}
		r, n := fr.m.decodeRune(b)
		return tuple{r, n}
	})
	reg("unicode/utf8.DecodeRuneInString", func(fr *frame, a []value) value {
		b := strBytes(a[0])
		if len(b) == 0 {
			return tuple{int32(0xFFFD), 0}
		}
		r, n := fr.m.decodeRune(b)
		return tuple{r, n}
	})
	reg("unicode/utf8.RuneCountInString", func(fr *frame, a []value) value {
		b := strBytes(a[0])
		n := 0
		for i := 0; i < len(b); n++ {
			_, w := fr.m.decodeRune(b[i:])
			i += w
		}
		return n
	})
	reg("unicode/utf8.RuneCount", func(fr *frame, a []value) value {
		b := a[0].([]value)
		n := 0
		for i := 0; i < len(b); n++ {
			_, w := fr.m.decodeRune(b[i:])
			i += w
		}
		return n
	})
	reg("unicode/utf8.ValidString", func(fr *frame, a []value) value {
		b := strBytes(a[0])
		for i := 0; i < len(b); {
			r, w := fr.m.decodeRune(b[i:])
			if w == 1 {
				if rc, ok := r.(int32); ok && rc == 0xFFFD {
					return false
				}
			}
			i += w
		}
		return true
	})
	reg("unicode/utf8.EncodeRune", func(fr *frame, a []value) value {
		p := a[0].([]value)
		enc := fr.m.encodeRune(a[1])
		if len(p) < len(enc) {
			panic(fr.m.runtimeError(fmt.Sprintf("index out of range [%d] with length %d", len(enc)-1, len(p))))
		}
		copy(p, enc)
		return len(enc)
	})
	reg("unicode/utf8.AppendRune", func(fr *frame, a []value) value {
		return append(a[0].([]value), fr.m.encodeRune(a[1])...)
	})
	reg("unicode/utf8.RuneLen", func(fr *frame, a []value) value {
		if rc, ok := a[0].(int32); ok {
			return utf8.RuneLen(rc)
		}
		return len(fr.m.encodeRune(a[0]))
	})

	reg("encoding/json.Marshal", func(fr *frame, a []value) value {
		nv, ok := toNative(a[0])
		if !ok {
			return tuple{strBytes(fr.m.opaqueText(nil)), iface{}}
		}
		data, err := json.Marshal(nv)
		if err != nil {
			return tuple{[]value(nil), fr.m.nativeError(err)}
		}
		return tuple{strBytes(string(data)), iface{}}
	})

	// ---- hash/fnv 64a: modelled as an injective stream identifier. The bytes
	// written are kept; Sum64 of a fully concrete stream is the real FNV-1a
	// value, a stream with symbolic bytes is compared (byte-wise, forking) with
	// every stream hashed before on this path and gets that stream's value if
	// equal, else a fresh value. Assumption: FNV-1a 64 has no collisions on
	// the explored streams.
	reg("(*hash/fnv.sum64a).Write", func(fr *frame, a []value) value {
		st := fr.m.fnvStream(a[0].(*value))
		*st = append(*st, a[1].([]value)...)
		return tuple{len(a[1].([]value)), iface{}}
	})
	reg("(*hash/fnv.sum64a).Sum64", func(fr *frame, a []value) value {
		return fr.m.fnvSum(*fr.m.fnvStream(a[0].(*value)))
	})
	reg("(*hash/fnv.sum64a).Reset", func(fr *frame, a []value) value {
		st := fr.m.fnvStream(a[0].(*value))
		*st = nil
		return nil
	})

	// ---- rune classifiers summarised as range disjunctions (evaluated natively
	// over the whole rune domain once)
	for name, f := range map[string]func(rune) bool{
		"strconv.IsPrint": strconv.IsPrint, "strconv.IsGraphic": strconv.IsGraphic,
		"unicode.IsPrint": unicode.IsPrint, "unicode.IsSpace": unicode.IsSpace, "unicode.IsLetter": unicode.IsLetter,
		"unicode.IsDigit": unicode.IsDigit, "unicode.IsUpper": unicode.IsUpper, "unicode.IsLower": unicode.IsLower,
		"unicode.IsControl": unicode.IsControl, "unicode.IsGraphic": unicode.IsGraphic, "unicode.IsPunct": unicode.IsPunct,
	} {
		name, f := name, f
		reg(name, func(fr *frame, a []value) value {
			if rc, ok := a[0].(int32); ok {
				return f(rc)
			}
			return fr.m.runeClass(name, f, a[0].(*sym.Term))
		})
	}

	// ---- misc
	reg("runtime.Gosched", func(fr *frame, a []value) value {
		fr.m.blockX(fr, "gosched", func() bool { return true }, true)
		return nil
	})
	reg("runtime.GC", func(fr *frame, a []value) value { return nil })
	reg("runtime.KeepAlive", func(fr *frame, a []value) value { return nil })
	reg("runtime.SetFinalizer", func(fr *frame, a []value) value { return nil })
	reg("runtime.NumGoroutine", func(fr *frame, a []value) value {
		n := 0
		for _, g := range fr.m.sched.gs {
			if !g.done {
				n++
			}
		}
		return n
	})
	reg("time.Now", func(fr *frame, a []value) value { panic(unsupported("time.Now")) })
	reg("time.Sleep", func(fr *frame, a []value) value {
		fr.m.blockX(fr, "sleep", func() bool { return true }, true)
		return nil
	})
	reg("os.Getenv", func(fr *frame, a []value) value { return "" })
	reg("errors.Is", func(fr *frame, a []value) value {
		x, y := a[0].(iface), a[1].(iface)
		if x.t == nil || y.t == nil {
			return x.t == nil && y.t == nil
		}
		return fr.m.errorsIs(fr, x, y, 0)
	})
}

// errorsIs follows errors.Is: equality, an Is(error) bool method, then the
// Unwrap() error / Unwrap() []error chain (the methods are interpreted).
func (m *Machine) errorsIs(fr *frame, x, y iface, depth int) bool {
	for ; depth < 64; depth++ {
		if x.t == nil {
			return false
		}
		if types.Comparable(x.t) && types.Identical(x.t, y.t) && m.equalsV(x.t, x, y) == true {
			return true
		}
		ms := m.P.Prog.MethodSets.MethodSet(x.t)
		if sel := ms.Lookup(nil, "Is"); sel != nil {
			sig := sel.Type().(*types.Signature)
			if sig.Params().Len() == 1 && sig.Results().Len() == 1 && types.Identical(sig.Params().At(0).Type(), types.Universe.Lookup("error").Type()) {
				if r, ok := m.call(fr, token.NoPos, m.P.Prog.MethodValue(sel), []value{x.v, y}).(bool); ok && r {
					return true
				}
			}
		}
		sel := ms.Lookup(nil, "Unwrap")
		if sel == nil {
			return false
		}
		sig := sel.Type().(*types.Signature)
		if sig.Params().Len() != 0 || sig.Results().Len() != 1 {
			return false
		}
		r := m.call(fr, token.NoPos, m.P.Prog.MethodValue(sel), []value{x.v})
		switch rv := r.(type) {
		case iface:
			x = rv
		case []value:
			for _, e := range rv {
				if ei, ok := e.(iface); ok && m.errorsIs(fr, ei, y, depth+1) {
					return true
				}
			}
			return false
		default:
			return false
		}
	}
	return false
}

func regexpOf(v value) *regexp.Regexp {
	p := v.(*value)
	return (*p).(*nativeObj).v.(*regexp.Regexp)
}

// wgCount keeps WaitGroup counters on the side, keyed by the WaitGroup's address.
func (m *Machine) wgCount(cell *value) *int {
	if m.objs == nil {
		m.objs = map[string]value{}
	}
	k := fmt.Sprintf("wg%p", cell)
	if c, ok := m.objs[k]; ok {
		return c.(*int)
	}
	c := new(int)
	m.objs[k] = c
	return c
}

// nativeError converts a native Go error to an interpreted error value
// (*errors.errorString) carrying the same message.
func (m *Machine) nativeError(err error) value {
	if err == nil {
		return iface{}
	}
	return m.newError(err.Error())
}

func (m *Machine) newError(msg value) value {
	ep := m.P.Prog.ImportedPackage("errors")
	if ep == nil {
		panic(engineError{"errors package not loaded"})
	}
	t := ep.Type("errorString").Object().Type()
	var cell value = structure{msg}
	return iface{types.NewPointer(t), &cell}
}

func (m *Machine) indexByte(b []value, c value) value {
	for i := range b {
		if m.truth(m.byteEq(b[i], c)) {
			return i
		}
	}
	return -1
}

func (m *Machine) countByte(b []value, c value) value {
	n := 0
	for i := range b {
		if m.truth(m.byteEq(b[i], c)) {
			n++
		}
	}
	return n
}

func (m *Machine) bytesEq(a, b []value) value {
	if len(a) != len(b) {
		return false
	}
	var acc value = true
	for i := range a {
		acc = m.andV(acc, m.byteEq(a[i], b[i]))
		if acc == false {
			return false
		}
	}
	return acc
}

func (m *Machine) bytesCompare(a, b []value) value {
	n := len(a)
	if len(b) < n {
		n = len(b)
	}
	for i := 0; i < n; i++ {
		if m.truth(m.byteEq(a[i], b[i])) {
			continue
		}
		lt := m.binop(token.LSS, types.Typ[types.Uint8], a[i], b[i])
		if m.truth(lt) {
			return -1
		}
		return 1
	}
	switch {
	case len(a) < len(b):
		return -1
	case len(a) > len(b):
		return 1
	}
	return 0
}

func (m *Machine) indexSub(s, sub []value) value {
	if len(sub) == 0 {
		return 0
	}
	for i := 0; i+len(sub) <= len(s); i++ {
		if m.truth(m.bytesEq(s[i:i+len(sub)], sub)) {
			return i
		}
	}
	return -1
}

// deepEqual implements reflect.DeepEqual on interface values.
func (m *Machine) deepEqual(x, y value, depth int) value {
	if depth > 50 {
		panic(unsupported("DeepEqual: too deep (cyclic?)"))
	}
	xi, yi := x.(iface), y.(iface)
	if xi.t == nil || yi.t == nil {
		return xi.t == nil && yi.t == nil
	}
	if !types.Identical(xi.t, yi.t) {
		return false
	}
	return m.deepEq(xi.t, xi.v, yi.v, depth)
}

func (m *Machine) deepEq(t types.Type, x, y value, depth int) value {
	if depth > 50 {
		panic(unsupported("DeepEqual: too deep (cyclic?)"))
	}
	switch u := t.Underlying().(type) {
	case *types.Basic:
		return m.equalsV(t, x, y)
	case *types.Pointer:
		px, py := x.(*value), y.(*value)
		if px == py {
			return true
		}
		if px == nil || py == nil {
			return false
		}
		return m.deepEq(u.Elem(), *px, *py, depth+1)
	case *types.Slice:
		sx, sy := x.([]value), y.([]value)
		if (sx == nil) != (sy == nil) || len(sx) != len(sy) {
			return false
		}
		var acc value = true
		for i := range sx {
			acc = m.andV(acc, m.deepEq(u.Elem(), sx[i], sy[i], depth+1))
			if acc == false {
				return false
			}
		}
		return acc
	case *types.Array:
		sx, sy := x.(array), y.(array)
		var acc value = true
		for i := range sx {
			acc = m.andV(acc, m.deepEq(u.Elem(), sx[i], sy[i], depth+1))
			if acc == false {
				return false
			}
		}
		return acc
	case *types.Struct:
		sx, sy := x.(structure), y.(structure)
		var acc value = true
		for i := range sx {
			acc = m.andV(acc, m.deepEq(u.Field(i).Type(), sx[i], sy[i], depth+1))
			if acc == false {
				return false
			}
		}
		return acc
	case *types.Interface:
		return m.deepEqual(x, y, depth+1)
	case *types.Map:
		mx, my := x.(*omap), y.(*omap)
		if (mx == nil) != (my == nil) || mx.len() != my.len() {
			return false
		}
		if mx == my {
			return true
		}
		var acc value = true
		for _, e := range mx.ents {
			if e.dead {
				continue
			}
			v2, ok := my.lookup(m, e.key)
			if !ok {
				return false
			}
			acc = m.andV(acc, m.deepEq(u.Elem(), e.val, v2, depth+1))
			if acc == false {
				return false
			}
		}
		return acc
	case *types.Signature:
		return isNilRef(x) && isNilRef(y)
	case *types.Chan:
		return x.(*ichan) == y.(*ichan)
	}
	panic(unsupported("DeepEqual on %v", t))
}

// opaqueText is the placeholder used when a symbolic number has to be rendered as text.
func (m *Machine) opaqueText(v value) value {
	m.path.Notes["opaque_format"]++
	if t, ok := v.(*sym.Term); ok {
		return fmt.Sprintf("‹sym:%d›", t.ID)
	}
	return "‹sym›"
}

// toNative converts a JSON-like interpreter value (interface{} trees of maps,
// slices and concrete scalars) to a native Go value. ok=false if the value
// contains symbolic parts or kinds json cannot encode.
func toNative(v value) (interface{}, bool) {
	switch x := v.(type) {
	case iface:
		if x.t == nil {
			return nil, true
		}
		return toNative(x.v)
	case bool, int, int8, int16, int32, int64, uint, uint8, uint16, uint32, uint64, float32, float64, string:
		return x, true
	case []value:
		if x == nil {
			return []interface{}(nil), true
		}
		out := make([]interface{}, len(x))
		for i, e := range x {
			n, ok := toNative(e)
			if !ok {
				return nil, false
			}
			out[i] = n
		}
		return out, true
	case *omap:
		if x == nil {
			return map[string]interface{}(nil), true
		}
		out := map[string]interface{}{}
		for _, e := range x.ents {
			if e.dead {
				continue
			}
			k, ok := e.key.(string)
			if !ok {
				return nil, false
			}
			n, ok := toNative(e.val)
			if !ok {
				return nil, false
			}
			out[k] = n
		}
		return out, true
	case *value:
		if x == nil {
			return nil, true
		}
		return toNative(*x)
	}
	return nil, false
}

type fnvSeen struct {
	stream []value
	sum    uint64
}

func (m *Machine) fnvStream(cell *value) *[]value {
	if m.objs == nil {
		m.objs = map[string]value{}
	}
	k := fmt.Sprintf("fnv%p", cell)
	if c, ok := m.objs[k]; ok {
		return c.(*[]value)
	}
	c := new([]value)
	m.objs[k] = c
	return c
}

func (m *Machine) fnvSum(stream []value) value {
	if m.objs == nil {
		m.objs = map[string]value{}
	}
	var seen []fnvSeen
	if c, ok := m.objs["fnvSeen"]; ok {
		seen = c.([]fnvSeen)
	}
	cb, concrete := concreteBytes(stream)
	if concrete {
		h := uint64(14695981039346656037)
		for _, b := range cb {
			h ^= uint64(b)
			h *= 1099511628211
		}
		seen = append(seen, fnvSeen{append([]value(nil), stream...), h})
		m.objs["fnvSeen"] = seen
		return h
	}
	m.path.Notes["fnv_symbolic_streams"]++
	for _, s := range seen {
		if len(s.stream) == len(stream) && m.truth(m.bytesEq(s.stream, stream)) {
			return s.sum
		}
	}
	id := uint64(0xF00D000000000000) + uint64(len(seen))
	seen = append(seen, fnvSeen{append([]value(nil), stream...), id})
	m.objs["fnvSeen"] = seen
	return id
}

var runeRanges sync.Map // classifier name -> [][2]int32 (inclusive ranges where it holds, within 0..0x10FFFF)

// runeClass encodes a pure rune classifier on a symbolic rune as a disjunction
// of ranges; runes outside 0..0x10FFFF are classified natively as well (they
// behave like a single class: the classifier's value on -1).
func (m *Machine) runeClass(name string, f func(rune) bool, r *sym.Term) value {
	var ranges [][2]int32
	if c, ok := runeRanges.Load(name); ok {
		ranges = c.([][2]int32)
	} else {
		start := int32(-1)
		for x := int32(0); x <= 0x10FFFF; x++ {
			if f(x) {
				if start < 0 {
					start = x
				}
			} else if start >= 0 {
				ranges = append(ranges, [2]int32{start, x - 1})
				start = -1
			}
		}
		if start >= 0 {
			ranges = append(ranges, [2]int32{start, 0x10FFFF})
		}
		runeRanges.Store(name, ranges)
	}
	c := m.ctx()
	k := func(v int32) *sym.Term { return c.Const(sym.BV32, uint64(uint32(v))) }
	acc := c.False
	for _, rg := range ranges {
		var t *sym.Term
		if rg[0] == rg[1] {
			t = c.Eq(r, k(rg[0]))
		} else {
			t = c.And(c.Bin(sym.OpSLe, k(rg[0]), r), c.Bin(sym.OpSLe, r, k(rg[1])))
		}
		acc = c.Or(acc, t)
	}
	if f(-1) || f(0x110000) {
		panic(unsupported("%s holds outside the Unicode range", name))
	}
	return lowerBool(acc)
}
