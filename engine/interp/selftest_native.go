package interp

import "math"

func mathFloat64bits(f float64) uint64 { return math.Float64bits(f) }

//go:noinline
func nativeF2I(f float64) int64 { return int64(f) }
