package interp

import (
	"fmt"
	"regexp"
	"strconv"
	"unicode"
	"unicode/utf8"

	"gosym/sym"
)

// SelfTest validates the engine's std models against the real functions:
// the symbolic code path of each model is driven with symbolic inputs and
// evaluated under concrete assignments (no solver), exhaustively on small
// alphabets and on boundary values. It returns the number of comparisons and
// the list of mismatches.
func SelfTest(P *Program) (int, []string) {
	var bad []string
	n := 0
	fail := func(format string, a ...interface{}) {
		if len(bad) < 20 {
			bad = append(bad, fmt.Sprintf(format, a...))
		}
	}
	m := NewMachine(P)
	newPath := func(assign map[string]uint64) {
		m.path = &Path{Ctx: sym.NewCtx(), EvalOnly: assign, Notes: map[string]int64{}, Covers: map[string]bool{}, Known: map[string]bool{}}
	}
	symBytes := func(k int) []value {
		out := make([]value, k)
		for i := range out {
			out[i] = m.ctx().Var(sym.BV8, fmt.Sprintf("b%d", i))
		}
		return out
	}
	assignOf := func(bs []byte) map[string]uint64 {
		a := map[string]uint64{}
		for i, b := range bs {
			a[fmt.Sprintf("b%d", i)] = uint64(b)
		}
		return a
	}
	evalV := func(v value, assign map[string]uint64) uint64 {
		if t, ok := v.(*sym.Term); ok {
			return sym.Eval(t, assign)
		}
		switch x := v.(type) {
		case int32:
			return uint64(uint32(x))
		case uint8:
			return uint64(x)
		case bool:
			if x {
				return 1
			}
			return 0
		}
		return uint64(asInt64(v))
	}
	// 1. utf8 decode: every first byte x boundary continuation bytes
	cont := []byte{0x00, 0x41, 0x7f, 0x80, 0x8f, 0x90, 0x9f, 0xa0, 0xbf, 0xc0, 0xff}
	for k := 1; k <= 4; k++ {
		var rec func(prefix []byte)
		rec = func(prefix []byte) {
			if len(prefix) == k {
				assign := assignOf(prefix)
				newPath(assign)
				r, w := m.decodeRune(symBytes(k))
				wr, ww := utf8.DecodeRune(prefix)
				n++
				if w != ww || int32(evalV(r, assign)) != wr {
					fail("decodeRune(% x) = (%d,%d), want (%d,%d)", prefix, int32(evalV(r, assign)), w, wr, ww)
				}
				return
			}
			set := cont
			if len(prefix) == 0 {
				set = make([]byte, 256)
				for i := range set {
					set[i] = byte(i)
				}
			}
			for _, b := range set {
				rec(append(append([]byte{}, prefix...), b))
			}
		}
		rec(nil)
	}
	// 2. utf8 encode and rune classifiers on boundary runes
	var runes []rune
	for _, b := range []rune{0, 0x1f, 0x20, 0x7e, 0x7f, 0x80, 0xa0, 0xad, 0xff, 0x100, 0x7ff, 0x800, 0xd7ff, 0xd800, 0xdfff, 0xe000, 0xfeff, 0xfffd, 0xffff, 0x10000, 0x10ffff, 0x110000, -1, 0x7fffffff, -0x80000000} {
		for d := rune(-2); d <= 2; d++ {
			runes = append(runes, b+d)
		}
	}
	for r := rune(0); r < 0x3000; r += 7 {
		runes = append(runes, r)
	}
	for _, r := range runes {
		assign := map[string]uint64{"r": uint64(uint32(r))}
		newPath(assign)
		enc := m.encodeRune(m.ctx().Var(sym.BV32, "r"))
		var buf [4]byte
		w := utf8.EncodeRune(buf[:], r)
		n++
		if len(enc) != w {
			fail("encodeRune(%#x) width %d want %d", r, len(enc), w)
		} else {
			for i := 0; i < w; i++ {
				if byte(evalV(enc[i], assign)) != buf[i] {
					fail("encodeRune(%#x) byte %d", r, i)
				}
			}
		}
		for name, f := range map[string]func(rune) bool{"strconv.IsPrint": strconv.IsPrint, "unicode.IsSpace": unicode.IsSpace, "unicode.IsLetter": unicode.IsLetter, "unicode.IsPrint": unicode.IsPrint} {
			newPath(assign)
			got := evalV(m.runeClass(name, f, m.ctx().Var(sym.BV32, "r")), assign) != 0
			n++
			if got != f(r) {
				fail("%s(%#x) = %v", name, r, got)
			}
		}
	}
	// 3. line terminator regexp: all strings over {CR, LF, x} up to length 7
	lt := regexp.MustCompile(reLineTerm)
	alpha := []byte{'\r', '\n', 'x'}
	for k := 1; k <= 7; k++ {
		idx := make([]int, k)
		for {
			bs := make([]byte, k)
			for i := range bs {
				bs[i] = alpha[idx[i]]
			}
			assign := assignOf(bs)
			newPath(assign)
			ms := m.lineTermMatches(symBytes(k))
			want := lt.FindAllIndex(bs, -1)
			n++
			ok := len(ms) == len(want)
			for i := 0; ok && i < len(ms); i++ {
				ok = ms[i][0] == want[i][0] && ms[i][1] == want[i][1]
			}
			if !ok {
				fail("lineTermMatches(%q) = %v want %v", bs, ms, want)
			}
			newPath(assign)
			parts := m.reSplit(lt, symstr(symBytes(k)), -1).([]value)
			wantParts := lt.Split(string(bs), -1)
			n++
			if len(parts) != len(wantParts) {
				fail("reSplit(%q): %d parts want %d", bs, len(parts), len(wantParts))
			} else {
				for i, p := range parts {
					pb := strBytes(p)
					if len(pb) != len(wantParts[i]) {
						fail("reSplit(%q) part %d length", bs, i)
					}
				}
			}
			j := 0
			for j < k {
				idx[j]++
				if idx[j] < len(alpha) {
					break
				}
				idx[j] = 0
				j++
			}
			if j == k {
				break
			}
		}
	}
	// 4. name regexp: all 1- and 2-byte strings
	nameRe := regexp.MustCompile(reName)
	for k := 1; k <= 2; k++ {
		newPath(map[string]uint64{})
		t := m.reMatchString(nameRe, symstr(symBytes(k)))
		total := 256
		if k == 2 {
			total = 65536
		}
		for v := 0; v < total; v++ {
			bs := []byte{byte(v)}
			if k == 2 {
				bs = []byte{byte(v >> 8), byte(v)}
			}
			n++
			if (evalV(t, assignOf(bs)) != 0) != nameRe.MatchString(string(bs)) {
				fail("name regexp model differs on %q", bs)
			}
		}
	}
	// 5. float -> int conversions (amd64 semantics) on boundary values
	for _, f := range []float64{0, -0.5, 1.9, -1.9, 2147483647, 2147483648, -2147483648, -2147483649, 9.3e18, -9.3e18, 1e300, -1e300} {
		c := sym.NewCtx()
		t := c.Conv(sym.OpFPToSI, sym.BV64, c.Const(sym.F64, mathFloat64bits(f)))
		n++
		if int64(t.Val) != nativeF2I(f) {
			fail("fp->int(%v) = %d want %d", f, int64(t.Val), nativeF2I(f))
		}
	}
	return n, bad
}
