package interp

import (
	"fmt"
	"os"
	"runtime/debug"
	"sort"
	"strings"
	"sync"
	"time"

	"golang.org/x/tools/go/ssa"

	"gosym/sym"
)

// Options of one exploration.
type Options struct {
	Workers       int
	MaxPaths      int
	MaxSteps      int64
	MaxDecisions  int
	SolverKind    string
	SolverTimeout int // ms
	CountFiles    bool
	CountCalls    bool
	Trace         bool
	SampleEvery   int
	Deadline      time.Time
	StopOnViolation bool
	ForkSites       bool
	BudgetIsViolation bool // exceeding the per-path instruction / depth budget is a finding (hang, unbounded recursion)
	Params          map[string]int
	Seed            int
}

type PathResult struct {
	Status     PathStatus
	Detail     string
	Decisions  []Decision
	Model      map[string]uint64
	Inputs     []Input
	Violations []Violation
	Covers     []string
	Known      []string
	Steps      int64
	Unknowns   int
	Digest     []string
	Notes      map[string]int64
	PanicText  string
}

type Summary struct {
	Entry        string
	Paths        int
	ByStatus     map[string]int
	Decisions    int64
	Steps        int64
	MaxPathSteps int64
	Violations   []FoundViolation
	Covers       map[string]int
	Notes        map[string]int64
	Unknowns     int
	Incomplete   string // non-empty if the exploration was cut (budget/deadline)
	Samples      []PathResult
	Solver       SolverStats
	Funcs        map[string]bool
	Problems     []string // unsupported / engine errors (distinct)
	Wall         float64
	PanicPaths   []PathResult
}

type SolverStats struct {
	Queries, Sat, Unsat, Unknown, Errors int
	Seconds                              float64
}

type FoundViolation struct {
	Label     string
	Known     []string
	Model     map[string]uint64
	Inputs    []Input
	Decisions []Decision
	Detail    string
	Entry     string
}

// RunPath executes one path described by item on machine m.
func (m *Machine) RunPath(entry *ssa.Function, item WorkItem, solver *sym.Solver, opt *Options) (res *PathResult) {
	// reset per-path state
	for g := range m.globals {
		if m.P.isRepoPkg(g.Pkg) {
			delete(m.globals, g)
		}
	}
	m.Steps = 0
	if opt.MaxSteps > 0 {
		m.MaxSteps = opt.MaxSteps
	}
	m.CountFiles = opt.CountFiles
	if m.CountFiles {
		m.StepsByFile = map[string]int64{}
	}
	if opt.CountCalls {
		m.CallsByFn = map[string]int64{}
	}
	m.objs = nil
	m.ForkSites = opt.ForkSites
	m.Params = opt.Params
	m.MapOrderSymbolic = false
	m.MapDeviationBudget = 0
	m.mapRotations = 0
	m.resetSched()
	m.raceReset(false)
	solver.Reset()
	p := &Path{Ctx: sym.NewCtx(), Solver: solver, Prefix: item.Prefix, Covers: map[string]bool{}, Known: map[string]bool{},
		Notes: map[string]int64{}, MaxDecisions: opt.MaxDecisions, Fallback: m.fallback,
		Emit: m.emit, implied: map[*sym.Term]bool{},
		dom: map[*sym.Term]*[4]uint64{}, impure: map[*sym.Term]bool{}, varsOf: map[*sym.Term]*sym.Term{}, ttab: map[*sym.Term]*[4]uint64{}}
	if len(item.Prefix) == 0 {
		p.setModel(map[string]uint64{})
	} else if item.Model != nil {
		p.setModel(item.Model)
	}
	m.path = p
	res = &PathResult{}
	finish := func() {
		res.Decisions = p.Decisions
		res.Model = p.Model
		res.Inputs = p.Inputs
		res.Violations = p.Violations
		for c := range p.Covers {
			res.Covers = append(res.Covers, c)
		}
		for c := range p.Known {
			res.Known = append(res.Known, c)
		}
		sort.Strings(res.Covers)
		res.Steps = m.Steps
		res.Unknowns = p.Unknowns
		res.Digest = p.Digest
		p.Notes["fast_decided"] += int64(p.FastDecided)
		res.Notes = p.Notes
		if res.Status == PathDone && p.Status != PathDone {
			res.Status, res.Detail = p.Status, p.Detail
		}
		m.killAll()
	}
	defer func() {
		r := recover()
		switch r := r.(type) {
		case nil:
			res.Status = PathDone
		case pathAbort:
			res.Status, res.Detail = r.status, r.detail
		case targetPanic:
			res.Status = PathPanic
			res.PanicText = m.panicText(r)
			res.Detail = "uncaught panic: " + res.PanicText
		case engineError:
			res.Status = PathUnsupported
			res.Detail = r.msg
			if !strings.HasPrefix(r.msg, "UNSUPPORTED") {
				res.Detail = "ENGINE: " + r.msg + "\n" + string(debug.Stack())
			}
		case killed:
			res.Status = PathUnsupported
			res.Detail = "killed"
		default:
			res.Status = PathUnsupported
			res.Detail = fmt.Sprintf("ENGINE CRASH: %v\n%s", r, debug.Stack())
		}
		finish()
	}()
	root := &frame{m: m, g: m.sched.gs[0], info: &fnInfo{}}
	if init := entry.Pkg.Func("init"); init != nil {
		m.call(root, entry.Pos(), init, nil)
	}
	m.call(root, entry.Pos(), entry, nil)
	if len(p.Decisions) < len(p.Prefix) {
		panic(engineError{fmt.Sprintf("nondeterministic replay: path ended after %d of %d prefix decisions", len(p.Decisions), len(p.Prefix))})
	}
	return res
}

func (m *Machine) panicText(p targetPanic) string {
	if it, ok := p.v.(iface); ok && it.t != nil {
		// error / Stringer rendering, best effort and never fatal
		var out string
		func() {
			defer func() {
				if r := recover(); r != nil {
					out = toString(it.v)
				}
			}()
			fr := &frame{m: m, g: m.sched.gs[0], info: &fnInfo{}}
			var o fmtOut
			m.printValue(fr, &o, it.t, it.v, 'v', fmtFlags{}, 0)
			s := o.result()
			if cs, ok := s.(string); ok {
				out = cs
			} else {
				out = toString(s)
			}
		}()
		return out
	}
	return toString(p.v)
}

// Explore runs the harness entry over all feasible paths.
func Explore(P *Program, entry *ssa.Function, opt Options) *Summary {
	start := time.Now()
	if opt.Workers <= 0 {
		opt.Workers = 1
	}
	if opt.SolverKind == "" {
		opt.SolverKind = "z3"
	}
	if opt.SolverTimeout == 0 {
		opt.SolverTimeout = 4000
	}
	sum := &Summary{Entry: entry.Name(), ByStatus: map[string]int{}, Covers: map[string]int{}, Notes: map[string]int64{}, Funcs: map[string]bool{}}
	var mu sync.Mutex
	cond := sync.NewCond(&mu)
	work := []WorkItem{{}}
	busy := 0
	stop := false
	problems := map[string]bool{}
	seenViol := map[string]bool{}

	worker := func(id int) {
		solver, err := sym.NewSolver(opt.SolverKind, opt.SolverTimeout)
		if err != nil {
			fmt.Fprintln(os.Stderr, "cannot start solver:", err)
			mu.Lock()
			stop = true
			sum.Incomplete = "solver start failed: " + err.Error()
			cond.Broadcast()
			mu.Unlock()
			return
		}
		defer solver.Close()
		var fbs []*sym.Solver
		defer func() {
			for _, f := range fbs {
				f.Close()
			}
		}()
		fallback := func() []*sym.Solver {
			if fbs == nil {
				for _, k := range []string{"cvc5", "z3-new", "z3"} {
					if k == opt.SolverKind {
						continue
					}
					if f, err := sym.NewSolver(k, opt.SolverTimeout*3); err == nil {
						fbs = append(fbs, f)
					}
				}
			}
			return fbs
		}
		m := NewMachine(P)
		m.fallback = fallback
		m.P.Trace = opt.Trace
		for {
			mu.Lock()
			for len(work) == 0 && busy > 0 && !stop {
				cond.Wait()
			}
			if stop || (len(work) == 0 && busy == 0) {
				mu.Unlock()
				break
			}
			item := work[len(work)-1]
			work = work[:len(work)-1]
			busy++
			mu.Unlock()

			m.emit = func(w WorkItem) {
				mu.Lock()
				work = append(work, w)
				cond.Signal()
				mu.Unlock()
			}
			res := m.RunPath(entry, item, solver, &opt)

			mu.Lock()
			busy--
			sum.Paths++
			sum.ByStatus[res.Status.String()]++
			sum.Decisions += int64(len(res.Decisions))
			sum.Steps += res.Steps
			if res.Steps > sum.MaxPathSteps {
				sum.MaxPathSteps = res.Steps
			}
			sum.Unknowns += res.Unknowns
			for _, c := range res.Covers {
				sum.Covers[c]++
			}
			for k, v := range res.Notes {
				sum.Notes[k] += v
			}
			for _, v := range res.Violations {
				key := v.Label + "|" + strings.Join(v.Known, ",")
				if !seenViol[key] || len(sum.Violations) < 50 {
					seenViol[key] = true
					sum.Violations = append(sum.Violations, FoundViolation{Label: v.Label, Known: v.Known, Model: v.Model,
						Inputs: res.Inputs, Decisions: res.Decisions[:min2(v.Decisions, len(res.Decisions))], Detail: v.Detail, Entry: entry.Name()})
				}
				if opt.StopOnViolation {
					stop = true
				}
			}
			if res.Status == PathBudget && opt.BudgetIsViolation {
				if len(sum.PanicPaths) < 20 {
					sum.PanicPaths = append(sum.PanicPaths, *res)
				}
			}
			switch res.Status {
			case PathUnsupported, PathUnknown, PathBudget:
				if res.Status == PathBudget && opt.BudgetIsViolation {
					break
				}
				d := res.Detail
				if len(d) > 2000 {
					d = d[:2000]
				}
				if !problems[res.Status.String()+": "+d] && len(problems) < 20 {
					problems[res.Status.String()+": "+d] = true
					sum.Problems = append(sum.Problems, res.Status.String()+": "+d)
				}
			case PathPanic, PathDeadlock:
				if len(sum.PanicPaths) < 20 {
					sum.PanicPaths = append(sum.PanicPaths, *res)
				}
			}
			if len(sum.Samples) < 40 && res.Status == PathDone && (opt.SampleEvery <= 1 || sum.Paths%opt.SampleEvery == 0) {
				sum.Samples = append(sum.Samples, *res)
			}
			work = append(work, m.path.NewWork...)
			if opt.MaxPaths > 0 && sum.Paths >= opt.MaxPaths && (len(work) > 0 || busy > 0) {
				stop = true
				sum.Incomplete = fmt.Sprintf("path budget %d reached with %d items pending", opt.MaxPaths, len(work))
			}
			if !opt.Deadline.IsZero() && time.Now().After(opt.Deadline) && (len(work) > 0 || busy > 0) {
				stop = true
				sum.Incomplete = fmt.Sprintf("deadline reached with %d items pending", len(work))
			}
			cond.Broadcast()
			mu.Unlock()
		}
		mu.Lock()
		sum.Solver.Queries += solver.Queries
		sum.Solver.Sat += solver.NSat
		sum.Solver.Unsat += solver.NUnsat
		sum.Solver.Unknown += solver.NUnknown
		sum.Solver.Errors += solver.Errors
		sum.Solver.Seconds += solver.Seconds
		for f := range m.FuncsSeen {
			sum.Funcs[f.String()] = true
		}
		cond.Broadcast()
		mu.Unlock()
	}
	var wg sync.WaitGroup
	for i := 0; i < opt.Workers; i++ {
		wg.Add(1)
		go func(id int) { defer wg.Done(); worker(id) }(i)
	}
	wg.Wait()
	sum.Wall = time.Since(start).Seconds()
	return sum
}

func min2(a, b int) int {
	if a < b {
		return a
	}
	return b
}
