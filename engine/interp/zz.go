package interp

import (
	"fmt"
	"go/types"
	"strings"

	"gosym/sym"
)

// Harness intrinsics. Harness files (zz_verif_*.go, injected as overlays into
// the packages under test) declare these functions with native bodies that
// read a replay file; the engine intercepts calls by name.

var zzIntrinsics = map[string]intrinsicFn{}

func smtName(name string) string {
	var sb strings.Builder
	sb.WriteString("v_")
	for i := 0; i < len(name); i++ {
		c := name[i]
		if c >= 'a' && c <= 'z' || c >= 'A' && c <= 'Z' || c >= '0' && c <= '9' || c == '_' {
			sb.WriteByte(c)
		} else {
			fmt.Fprintf(&sb, "_%02x", c)
		}
	}
	return sb.String()
}

// labelStr renders an assertion label; symbolic bytes show as '?'.
func labelStr(v value) string {
	if ss, ok := v.(symstr); ok {
		b := make([]byte, len(ss))
		for i, x := range ss {
			if c, ok := x.(uint8); ok {
				b[i] = c
			} else {
				b[i] = '?'
			}
		}
		return string(b)
	}
	return argStr(v)
}

func argStr(v value) string {
	s, ok := v.(string)
	if !ok {
		panic(engineError{"zz intrinsic: name/label argument must be a concrete string"})
	}
	return s
}

// choice returns a fresh case-split integer in [0,n).
func (m *Machine) choice(n int, tag string) int {
	p := m.path
	k := p.Notes["nchoice:"+tag]
	p.Notes["nchoice:"+tag] = k + 1
	name := fmt.Sprintf("%s#%d", tag, k)
	v := m.newVar(smtName(name), sym.BV64, "choice")
	c := m.ctx()
	m.assume(lowerBool(c.Bin(sym.OpULt, v, c.Const(sym.BV64, uint64(n)))))
	return m.freshChoice(v, n)
}

// mapRangeStart picks the rotation offset for a `range` over om.
func (m *Machine) mapRangeStart(om *omap) int {
	if !m.MapOrderSymbolic || om == nil || om.len() < 2 {
		return 0
	}
	if m.MapDeviationBudget <= 0 {
		return 0
	}
	w := len(om.ents)
	if w <= 8 {
		w = 8
	}
	k := m.choice(w, "maporder")
	if k != 0 {
		m.MapDeviationBudget--
		m.mapRotations++
	}
	return k
}

func init() {
	z := zzIntrinsics
	z["zzInt"] = func(fr *frame, a []value) value {
		m := fr.m
		lo, hi := asInt64(a[1]), asInt64(a[2])
		if lo == hi {
			return int(lo)
		}
		v := m.newVar(smtName(argStr(a[0])), sym.BV64, "int")
		c := m.ctx()
		m.assume(lowerBool(c.And(c.Bin(sym.OpSLe, c.Const(sym.BV64, uint64(lo)), v), c.Bin(sym.OpSLe, v, c.Const(sym.BV64, uint64(hi))))))
		return v
	}
	z["zzChoice"] = func(fr *frame, a []value) value {
		m := fr.m
		n := asInt64(a[1])
		if n <= 1 {
			return 0
		}
		v := m.newVar(smtName(argStr(a[0])), sym.BV64, "int")
		c := m.ctx()
		m.assume(lowerBool(c.Bin(sym.OpULt, v, c.Const(sym.BV64, uint64(n)))))
		return m.freshChoice(v, int(n))
	}
	z["zzInt64"] = func(fr *frame, a []value) value { return fr.m.newVar(smtName(argStr(a[0])), sym.BV64, "int64") }
	z["zzUint64"] = func(fr *frame, a []value) value { return fr.m.newVar(smtName(argStr(a[0])), sym.BV64, "uint64") }
	z["zzInt32"] = func(fr *frame, a []value) value { return fr.m.newVar(smtName(argStr(a[0])), sym.BV32, "int32") }
	z["zzUint32"] = func(fr *frame, a []value) value { return fr.m.newVar(smtName(argStr(a[0])), sym.BV32, "uint32") }
	z["zzRune"] = func(fr *frame, a []value) value { return fr.m.newVar(smtName(argStr(a[0])), sym.BV32, "int32") }
	z["zzByte"] = func(fr *frame, a []value) value { return fr.m.newVar(smtName(argStr(a[0])), sym.BV8, "byte") }
	z["zzBool"] = func(fr *frame, a []value) value { return fr.m.newVar(smtName(argStr(a[0])), sym.Bool, "bool") }
	z["zzFloat64"] = func(fr *frame, a []value) value {
		v := fr.m.newVar(smtName(argStr(a[0])), sym.BV64, "float64bits")
		return fr.m.ctx().Conv(sym.OpBitsToFP, sym.F64, v)
	}
	z["zzBytes"] = func(fr *frame, a []value) value {
		n := int(fr.m.concreteInt(a[1]))
		out := make([]value, n)
		base := argStr(a[0])
		for i := 0; i < n; i++ {
			out[i] = fr.m.newVar(smtName(fmt.Sprintf("%s_%d", base, i)), sym.BV8, "byte")
		}
		return out
	}
	z["zzString"] = func(fr *frame, a []value) value {
		n := int(fr.m.concreteInt(a[1]))
		if n == 0 {
			return ""
		}
		out := make(symstr, n)
		base := argStr(a[0])
		for i := 0; i < n; i++ {
			out[i] = fr.m.newVar(smtName(fmt.Sprintf("%s_%d", base, i)), sym.BV8, "byte")
		}
		return out
	}
	z["zzAssume"] = func(fr *frame, a []value) value { fr.m.assume(a[0]); return nil }
	z["zzAssert"] = func(fr *frame, a []value) value { fr.m.check(a[0], labelStr(a[1])); return nil }
	z["zzFail"] = func(fr *frame, a []value) value { fr.m.check(false, labelStr(a[0])); return nil }
	z["zzCover"] = func(fr *frame, a []value) value { fr.m.path.Covers[argStr(a[0])] = true; return nil }
	z["zzKnown"] = func(fr *frame, a []value) value { fr.m.path.Known[argStr(a[0])] = true; return nil }
	z["zzUnknown"] = func(fr *frame, a []value) value { delete(fr.m.path.Known, argStr(a[0])); return nil }
	z["zzMapOrder"] = func(fr *frame, a []value) value {
		fr.m.MapOrderSymbolic = a[0].(bool)
		fr.m.MapDeviationBudget = int(asInt64(a[1]))
		return nil
	}
	z["zzSched"] = func(fr *frame, a []value) value {
		fr.m.sched.explore = a[0].(bool)
		fr.m.sched.preempts = int(asInt64(a[1]))
		return nil
	}
	z["zzQuiesce"] = func(fr *frame, a []value) value { return fr.m.quiesce(fr) }
	z["zzYield"] = func(fr *frame, a []value) value {
		fr.m.blockX(fr, "yield", func() bool { return true }, true)
		return nil
	}
	z["zzSteps"] = func(fr *frame, a []value) value {
		suffix := argStr(a[0])
		if suffix == "" {
			return int(fr.m.Steps)
		}
		if !fr.m.CountFiles {
			panic(engineError{"zzSteps(file) needs per-file counting (--count-files)"})
		}
		var n int64
		for f, c := range fr.m.StepsByFile {
			for _, sfx := range strings.Split(suffix, ",") {
				if strings.HasSuffix(f, sfx) {
					n += c
				}
			}
		}
		return int(n)
	}
	z["zzCalls"] = func(fr *frame, a []value) value {
		if fr.m.CallsByFn == nil {
			panic(engineError{"zzCalls needs call counting"})
		}
		n := int64(0)
		want := argStr(a[0])
		for f, c := range fr.m.CallsByFn {
			if strings.HasSuffix(f, want) {
				n += c
			}
		}
		return int(n)
	}
	z["zzDigest"] = func(fr *frame, a []value) value {
		if s, ok := a[0].(string); ok {
			fr.m.path.Digest = append(fr.m.path.Digest, s)
		} else {
			fr.m.path.Digest = append(fr.m.path.Digest, "‹symbolic›")
		}
		return nil
	}
	z["zzIsSym"] = func(fr *frame, a []value) value { return true }
	z["zzConcreteInt"] = func(fr *frame, a []value) value { return int(fr.m.concreteInt(a[0])) }
	z["zzConcreteString"] = func(fr *frame, a []value) value {
		b := strBytes(a[0])
		out := make([]byte, len(b))
		for i, x := range b {
			if t, ok := x.(*sym.Term); ok {
				out[i] = byte(fr.m.concretize(t))
			} else {
				out[i] = x.(uint8)
			}
		}
		return string(out)
	}
	// zzIte(c, a, b) selects without forking (ints).
	z["zzIte"] = func(fr *frame, a []value) value {
		if cb, ok := a[0].(bool); ok {
			if cb {
				return a[1]
			}
			return a[2]
		}
		c := fr.m.ctx()
		return lower(types.Typ[types.Int], c.Ite(a[0].(*sym.Term), fr.m.toTerm(a[1]), fr.m.toTerm(a[2])))
	}
	// zzAnd / zzOr / zzNot: boolean connectives without forking.
	z["zzAnd"] = func(fr *frame, a []value) value { return fr.m.andV(a[0], a[1]) }
	z["zzOr"] = func(fr *frame, a []value) value {
		return fr.m.notV(fr.m.andV(fr.m.notV(a[0]), fr.m.notV(a[1])))
	}
	z["zzNot"] = func(fr *frame, a []value) value { return fr.m.notV(a[0]) }
	z["zzImplies"] = func(fr *frame, a []value) value {
		return fr.m.notV(fr.m.andV(a[0], fr.m.notV(a[1])))
	}
	// zzStrEq / zzBytesEq: equality as a term (no fork).
	z["zzStrEq"] = func(fr *frame, a []value) value {
		return fr.m.bytesEq(strBytes(a[0]), strBytes(a[1]))
	}
	z["zzBytesEq"] = func(fr *frame, a []value) value {
		return fr.m.bytesEq(a[0].([]value), a[1].([]value))
	}
	z["zzRace"] = func(fr *frame, a []value) value {
		fr.m.raceReset(a[0].(bool))
		return nil
	}
	z["zzParam"] = func(fr *frame, a []value) value {
		if v, ok := fr.m.Params[argStr(a[0])]; ok {
			return v
		}
		return int(asInt64(a[1]))
	}
	z["zzNote"] = func(fr *frame, a []value) value {
		fr.m.path.Notes["note:"+argStr(a[0])]++
		return nil
	}
}
