package interp

import (
	"fmt"
	"go/token"
	"go/types"
	"sort"
	"strconv"
	"unicode/utf8"
	"unsafe"

	"golang.org/x/tools/go/ssa"

	"gosym/sym"
)

// Engine implementation of fmt.Sprintf / Sprint / Errorf over interpreter
// values. Verbs: %v %+v %s %d %q %T %c %t %x %X %o %f %g %e %p %U with width,
// precision and the flags - + # 0 and space. Operands that implement error or
// fmt.Stringer have their interpreted method called, as fmt does.

type fmtOut struct {
	b []value
}

func (o *fmtOut) str(s string) {
	for i := 0; i < len(s); i++ {
		o.b = append(o.b, s[i])
	}
}

func (o *fmtOut) val(v value) { o.b = append(o.b, strBytes(v)...) }

func (o *fmtOut) result() value { return normStr(symstr(o.b)) }

var errorIface = types.Universe.Lookup("error").Type().Underlying().(*types.Interface)

func (m *Machine) stringerMethod(t types.Type, name string) *ssa.Function {
	ms := m.P.Prog.MethodSets.MethodSet(t)
	sel := ms.Lookup(nil, name)
	if sel == nil {
		return nil
	}
	sig := sel.Type().(*types.Signature)
	if sig.Params().Len() != 0 || sig.Results().Len() != 1 {
		return nil
	}
	if b, ok := sig.Results().At(0).Type().Underlying().(*types.Basic); !ok || b.Kind() != types.String {
		return nil
	}
	return m.P.Prog.MethodValue(sel)
}

// handleMethods renders v via Error()/String() if its type has them.
func (m *Machine) handleMethods(fr *frame, o *fmtOut, t types.Type, v value, verb rune) bool {
	if t == nil || t == rtypeType {
		if t == rtypeType {
			o.str(typeStr(v.(rtype).t))
			return true
		}
		return false
	}
	switch verb {
	case 'v', 's', 'q', 'x', 'X':
	default:
		return false
	}
	for _, name := range []string{"Error", "String"} {
		if fn := m.stringerMethod(t, name); fn != nil {
			// nil pointer receivers: fmt prints <nil> when the method panics on nil
			if p, ok := v.(*value); ok && p == nil {
				if _, isPtr := t.Underlying().(*types.Pointer); isPtr {
					o.str("<nil>")
					return true
				}
			}
			// fmt guards the call: a panicking Error/String method is reported in
			// the output, it does not take the formatting call down
			s, pv, panicked := m.guardedCall(fr, fn, v)
			if panicked {
				o.str("%!" + string(verb) + "(PANIC=" + name + " method: ")
				if pi, ok := pv.(iface); ok {
					m.printValue(fr, o, pi.t, pi.v, 'v', fmtFlags{}, 1)
				} else {
					o.str("?")
				}
				o.str(")")
				return true
			}
			if verb == 'q' {
				cs, ok := s.(string)
				if !ok {
					panic(unsupported("%%q of symbolic string"))
				}
				o.str(strconv.Quote(cs))
			} else {
				o.val(s)
			}
			return true
		}
	}
	return false
}

func (m *Machine) guardedCall(fr *frame, fn *ssa.Function, v value) (res value, pv value, panicked bool) {
	defer func() {
		if r := recover(); r != nil {
			tp, ok := r.(targetPanic)
			if !ok {
				panic(r)
			}
			pv, panicked = tp.v, true
		}
	}()
	return m.call(fr, token.NoPos, fn, []value{v}), nil, false
}

type fmtFlags struct {
	minus, plus, sharp, space, zero bool
	wid, prec                       int
	hasWid, hasPrec                 bool
}

func pad(s string, f fmtFlags) string {
	if !f.hasWid || utf8.RuneCountInString(s) >= f.wid {
		return s
	}
	n := f.wid - utf8.RuneCountInString(s)
	padc := " "
	if f.zero && !f.minus {
		padc = "0"
	}
	p := ""
	for i := 0; i < n; i++ {
		p += padc
	}
	if f.minus {
		return s + p
	}
	if padc == "0" && len(s) > 0 && (s[0] == '-' || s[0] == '+') {
		return s[:1] + p + s[1:]
	}
	return p + s
}

func nativeVerb(verb rune, f fmtFlags) string {
	s := "%"
	if f.minus {
		s += "-"
	}
	if f.plus {
		s += "+"
	}
	if f.sharp {
		s += "#"
	}
	if f.space {
		s += " "
	}
	if f.zero {
		s += "0"
	}
	if f.hasWid {
		s += strconv.Itoa(f.wid)
	}
	if f.hasPrec {
		s += "." + strconv.Itoa(f.prec)
	}
	return s + string(verb)
}

// printValue renders value v of static/dynamic type t.
func (m *Machine) printValue(fr *frame, o *fmtOut, t types.Type, v value, verb rune, f fmtFlags, depth int) {
	if depth > 20 {
		o.str("...")
		return
	}
	if it, ok := v.(iface); ok {
		if _, isI := t.Underlying().(*types.Interface); isI || t == nil {
			if it.t == nil {
				if verb == 'T' {
					o.str("<nil>")
				} else if verb == 'v' || verb == 's' {
					o.str("<nil>")
				} else {
					o.str("%!" + string(verb) + "(<nil>)")
				}
				return
			}
			m.printValue(fr, o, it.t, it.v, verb, f, depth)
			return
		}
	}
	if verb == 'T' {
		o.str(typeStr(t))
		return
	}
	if verb == 'p' {
		o.str(fmt.Sprintf("%p", v))
		return
	}
	if m.handleMethods(fr, o, t, v, verb) {
		return
	}
	switch u := t.Underlying().(type) {
	case *types.Basic:
		m.printBasic(o, u, v, verb, f)
	case *types.Pointer:
		p := v.(*value)
		if p == nil {
			o.str("<nil>")
			return
		}
		if depth == 0 {
			switch u.Elem().Underlying().(type) {
			case *types.Struct, *types.Array, *types.Slice, *types.Map:
				o.str("&")
				m.printValue(fr, o, u.Elem(), *p, verb, f, depth+1)
				return
			}
		}
		o.str(fmt.Sprintf("0x%x", uintptr(unsafe.Pointer(p))))
	case *types.Struct:
		st := v.(structure)
		o.str("{")
		for i := 0; i < u.NumFields(); i++ {
			if i > 0 {
				o.str(" ")
			}
			if f.plus || f.sharp {
				o.str(u.Field(i).Name() + ":")
			}
			m.printValue(fr, o, u.Field(i).Type(), st[i], verb, f, depth+1)
		}
		o.str("}")
	case *types.Slice:
		sl := v.([]value)
		if verb == 's' || verb == 'q' || verb == 'x' || verb == 'X' {
			if b, ok := u.Elem().Underlying().(*types.Basic); ok && b.Kind() == types.Uint8 {
				if cb, ok := concreteBytes(sl); ok {
					o.str(fmt.Sprintf(nativeVerb(verb, f), cb))
				} else if verb == 's' {
					o.b = append(o.b, sl...)
				} else {
					panic(unsupported("%%%c of symbolic bytes", verb))
				}
				return
			}
		}
		o.str("[")
		for i := range sl {
			if i > 0 {
				o.str(" ")
			}
			m.printValue(fr, o, u.Elem(), sl[i], verb, f, depth+1)
		}
		o.str("]")
	case *types.Array:
		sl := v.(array)
		o.str("[")
		for i := range sl {
			if i > 0 {
				o.str(" ")
			}
			m.printValue(fr, o, u.Elem(), sl[i], verb, f, depth+1)
		}
		o.str("]")
	case *types.Map:
		om := v.(*omap)
		o.str("map[")
		type kv struct {
			ks   string
			k, v value
		}
		var kvs []kv
		if om != nil {
			for _, e := range om.ents {
				if e.dead {
					continue
				}
				var ko fmtOut
				m.printValue(fr, &ko, u.Key(), e.key, 'v', fmtFlags{}, depth+1)
				ks, ok := ko.result().(string)
				if !ok {
					panic(unsupported("printing a map with symbolic keys"))
				}
				kvs = append(kvs, kv{ks, e.key, e.val})
			}
		}
		// fmt sorts map keys (internal/fmtsort): strings lexically, ints numerically.
		sort.SliceStable(kvs, func(i, j int) bool { return m.fmtKeyLess(u.Key(), kvs[i].k, kvs[j].k, kvs[i].ks, kvs[j].ks) })
		for i, e := range kvs {
			if i > 0 {
				o.str(" ")
			}
			m.printValue(fr, o, u.Key(), e.k, verb, f, depth+1)
			o.str(":")
			m.printValue(fr, o, u.Elem(), e.v, verb, f, depth+1)
		}
		o.str("]")
	case *types.Interface:
		it := v.(iface)
		if it.t == nil {
			o.str("<nil>")
			return
		}
		m.printValue(fr, o, it.t, it.v, verb, f, depth)
	case *types.Signature:
		if isNilRef(v) {
			o.str("<nil>")
		} else {
			o.str(fmt.Sprintf("%p", v))
		}
	case *types.Chan:
		if v.(*ichan) == nil {
			o.str("<nil>")
		} else {
			o.str(fmt.Sprintf("%p", v))
		}
	default:
		panic(unsupported("fmt: value of type %v", t))
	}
}

func (m *Machine) fmtKeyLess(kt types.Type, a, b value, as, bs string) bool {
	switch x := a.(type) {
	case string:
		return x < b.(string)
	case iface:
		y := b.(iface)
		if x.t != nil && y.t != nil && types.Identical(x.t, y.t) {
			return m.fmtKeyLess(x.t, x.v, y.v, as, bs)
		}
		return as < bs
	case int, int8, int16, int32, int64:
		return asInt64(a) < asInt64(b)
	case uint, uint8, uint16, uint32, uint64, uintptr:
		return asUint64(a) < asUint64(b)
	case float64:
		return x < b.(float64)
	case bool:
		return !x && b.(bool)
	}
	return as < bs
}

func (m *Machine) printBasic(o *fmtOut, u *types.Basic, v value, verb rune, f fmtFlags) {
	if _, ok := v.(*sym.Term); ok {
		if u.Kind() == types.Uint8 && verb == 'c' {
			o.b = append(o.b, v)
			return
		}
		if (u.Kind() == types.Int32) && verb == 'c' {
			o.b = append(o.b, m.encodeRune(v)...)
			return
		}
		if u.Kind() == types.Bool {
			if m.truth(v) {
				o.str("true")
			} else {
				o.str("false")
			}
			return
		}
		o.val(m.opaqueText(v))
		return
	}
	if ss, ok := v.(symstr); ok {
		switch verb {
		case 'v', 's':
			if f.hasWid || f.hasPrec {
				panic(unsupported("width/precision on symbolic string"))
			}
			o.b = append(o.b, ss...)
			return
		case 'q':
			o.val(m.quoteSym(ss))
			return
		}
		panic(unsupported("%%%c of symbolic string", verb))
	}
	// concrete: delegate to the real fmt with the same verb and flags
	o.str(fmt.Sprintf(nativeVerb(verb, f), v))
}

// quoteSym renders strconv.Quote for a string with symbolic bytes by forking
// on the character classes that Quote distinguishes (ASCII only; other bytes fork to UNSUPPORTED).
func (m *Machine) quoteSym(s symstr) value {
	var o fmtOut
	o.str(`"`)
	c := m.ctx()
	for _, b := range s {
		t, ok := b.(*sym.Term)
		if !ok {
			q := strconv.Quote(string([]byte{b.(uint8)}))
			o.str(q[1 : len(q)-1])
			continue
		}
		k := func(v byte) *sym.Term { return c.Const(sym.BV8, uint64(v)) }
		switch {
		case m.truth(lowerBool(c.Eq(t, k('"')))):
			o.str(`\"`)
		case m.truth(lowerBool(c.Eq(t, k('\\')))):
			o.str(`\\`)
		case m.truth(lowerBool(c.And(c.Bin(sym.OpULe, k(0x20), t), c.Bin(sym.OpULe, t, k(0x7e))))):
			o.b = append(o.b, t)
		default:
			v := byte(m.concretize(t))
			if v >= 0x80 {
				panic(unsupported("%%q of symbolic non-ASCII byte"))
			}
			q := strconv.Quote(string([]byte{v}))
			o.str(q[1 : len(q)-1])
		}
	}
	o.str(`"`)
	return o.result()
}

// sprintf implements the fmt formatting loop.
func (m *Machine) sprintf(fr *frame, format value, args []value) value {
	fs, ok := format.(string)
	if !ok {
		panic(unsupported("symbolic format string"))
	}
	var o fmtOut
	argi := 0
	for i := 0; i < len(fs); {
		c := fs[i]
		if c != '%' {
			o.b = append(o.b, c)
			i++
			continue
		}
		i++
		var f fmtFlags
	flags:
		for ; i < len(fs); i++ {
			switch fs[i] {
			case '-':
				f.minus = true
			case '+':
				f.plus = true
			case '#':
				f.sharp = true
			case ' ':
				f.space = true
			case '0':
				f.zero = true
			default:
				break flags
			}
		}
		for i < len(fs) && fs[i] >= '0' && fs[i] <= '9' {
			f.wid = f.wid*10 + int(fs[i]-'0')
			f.hasWid = true
			i++
		}
		if i < len(fs) && fs[i] == '.' {
			i++
			f.hasPrec = true
			for i < len(fs) && fs[i] >= '0' && fs[i] <= '9' {
				f.prec = f.prec*10 + int(fs[i]-'0')
				i++
			}
		}
		if i >= len(fs) {
			o.str("%!(NOVERB)")
			break
		}
		verb, w := utf8.DecodeRuneInString(fs[i:])
		i += w
		if verb == '%' {
			o.str("%")
			continue
		}
		if argi >= len(args) {
			o.str("%!" + string(verb) + "(MISSING)")
			continue
		}
		arg := args[argi].(iface)
		argi++
		if arg.t == nil {
			switch verb {
			case 'T', 'v':
				o.str("<nil>")
			default:
				o.str("%!" + string(verb) + "(<nil>)")
			}
			continue
		}
		var sub fmtOut
		m.printValue(fr, &sub, arg.t, arg.v, verb, f, 0)
		if f.hasWid {
			if s, ok := sub.result().(string); ok {
				// width applies to the whole operand for strings/numbers; nativeVerb already padded basics
				if _, isBasic := arg.t.Underlying().(*types.Basic); !isBasic {
					s = pad(s, f)
				}
				o.str(s)
				continue
			}
		}
		o.b = append(o.b, sub.b...)
	}
	if argi < len(args) {
		o.str("%!(EXTRA ")
		for j := argi; j < len(args); j++ {
			if j > argi {
				o.str(", ")
			}
			a := args[j].(iface)
			if a.t == nil {
				o.str("<nil>")
				continue
			}
			o.str(typeStr(a.t) + "=")
			m.printValue(fr, &o, a.t, a.v, 'v', fmtFlags{}, 0)
		}
		o.str(")")
	}
	return o.result()
}

func (m *Machine) sprint(fr *frame, args []value, ln bool) value {
	var o fmtOut
	prevString := false
	for i, a := range args {
		it := a.(iface)
		isString := false
		if it.t != nil {
			if b, ok := it.t.Underlying().(*types.Basic); ok && b.Kind() == types.String {
				isString = true
			}
		}
		if ln {
			if i > 0 {
				o.str(" ")
			}
		} else if i > 0 && !isString && !prevString {
			o.str(" ")
		}
		if it.t == nil {
			o.str("<nil>")
		} else {
			m.printValue(fr, &o, it.t, it.v, 'v', fmtFlags{}, 0)
		}
		prevString = isString
	}
	if ln {
		o.str("\n")
	}
	return o.result()
}

func init() {
	intrinsics["fmt.Sprintf"] = func(fr *frame, a []value) value {
		return fr.m.sprintf(fr, a[0], a[1].([]value))
	}
	intrinsics["fmt.Sprint"] = func(fr *frame, a []value) value { return fr.m.sprint(fr, a[0].([]value), false) }
	intrinsics["fmt.Sprintln"] = func(fr *frame, a []value) value { return fr.m.sprint(fr, a[0].([]value), true) }
	intrinsics["fmt.Errorf"] = func(fr *frame, a []value) value {
		msg := fr.m.sprintf(fr, a[0], a[1].([]value))
		return fr.m.fmtError(msg)
	}
	intrinsics["fmt.Println"] = func(fr *frame, a []value) value { return tuple{0, iface{}} }
	intrinsics["fmt.Printf"] = func(fr *frame, a []value) value { return tuple{0, iface{}} }
	intrinsics["fmt.Print"] = func(fr *frame, a []value) value { return tuple{0, iface{}} }
	intrinsics["log.Printf"] = func(fr *frame, a []value) value { return nil }
	intrinsics["log.Println"] = func(fr *frame, a []value) value { return nil }
}

// fmtError builds a *fmt.wrapError-free error: fmt.Errorf without %w returns *fmt.wrapError only with %w;
// otherwise &errorString{s} of package errors... the real type is *fmt.fmtError? No: errors.New-like
// `&errorString{s}` from package fmt is not exported; the dynamic type is *errors.errorString
// (fmt.Errorf calls errors.New when there is no %w).
func (m *Machine) fmtError(msg value) value { return m.newError(msg) }
