package interp

import (
	"fmt"
	"go/token"
	"go/types"
	"unsafe"
)

// Happens-before race analysis over the executions the scheduler explores.
// Every interpreted goroutine carries a vector clock; synchronisation objects
// (channels, mutexes, WaitGroups, atomics, go/exit) carry the clock of their
// last release. Every access to a heap cell or to a map is checked against the
// cell's last write and its reads since: two accesses by different goroutines,
// at least one a write, with no happens-before path between them are a data
// race in EVERY schedule that keeps the observed synchronisation order, not only
// in the explored one (DRF-SC makes this the right notion for Go).

type vclock map[int]int

func (v vclock) clone() vclock {
	c := make(vclock, len(v))
	for k, x := range v {
		c[k] = x
	}
	return c
}

func (v vclock) join(o vclock) {
	for k, x := range o {
		if x > v[k] {
			v[k] = x
		}
	}
}

type epoch struct {
	g   int
	clk int
	pos token.Pos
}

type cellState struct {
	w     epoch
	hasW  bool
	reads map[int]epoch
}

type raceState struct {
	on     bool
	clocks map[int]vclock           // goroutine id -> clock
	cells  map[unsafe.Pointer]*cellState
	objs   map[interface{}]vclock    // sync object -> release clock
	found  map[string]bool
}

func (m *Machine) raceReset(on bool) {
	m.race = raceState{on: on}
	if on {
		m.race.clocks = map[int]vclock{0: {0: 1}}
		m.race.cells = map[unsafe.Pointer]*cellState{}
		m.race.objs = map[interface{}]vclock{}
		m.race.found = map[string]bool{}
	}
}

func (m *Machine) curG() int {
	if m.sched.cur != nil {
		return m.sched.cur.id
	}
	return 0
}

func (m *Machine) vc(g int) vclock {
	c, ok := m.race.clocks[g]
	if !ok {
		c = vclock{g: 1}
		m.race.clocks[g] = c
	}
	return c
}

// raceFork: the new goroutine inherits the parent's clock.
func (m *Machine) raceFork(parent, child int) {
	if !m.race.on {
		return
	}
	pc := m.vc(parent)
	cc := pc.clone()
	cc[child] = 1
	m.race.clocks[child] = cc
	pc[parent]++
}

// raceRelease publishes the current goroutine's clock on a synchronisation object.
func (m *Machine) raceRelease(obj interface{}) {
	if !m.race.on {
		return
	}
	g := m.curG()
	c := m.vc(g)
	if o, ok := m.race.objs[obj]; ok {
		o.join(c)
	} else {
		m.race.objs[obj] = c.clone()
	}
	c[g]++
}

// raceAcquire joins the object's clock into the current goroutine's.
func (m *Machine) raceAcquire(obj interface{}) {
	if !m.race.on {
		return
	}
	if o, ok := m.race.objs[obj]; ok {
		m.vc(m.curG()).join(o)
	}
}

func (m *Machine) curPos() token.Pos {
	if m.curInstr != nil {
		return m.curInstr.Pos()
	}
	return token.NoPos
}

func (m *Machine) raceReport(kind string, a epoch, bPos token.Pos, bG int) {
	pa, pb := m.P.Fset.Position(a.pos), m.P.Fset.Position(bPos)
	key := fmt.Sprintf("%s:%d|%s:%d", pa.Filename, pa.Line, pb.Filename, pb.Line)
	if m.race.found[key] {
		return
	}
	m.race.found[key] = true
	// only races on library state are the property's subject
	if !(m.isRepoNonHarness(pa.Filename) || m.isRepoNonHarness(pb.Filename)) {
		return
	}
	fa, fb := fmt.Sprintf("%s:%d", shortFile(pa.Filename), pa.Line), fmt.Sprintf("%s:%d", shortFile(pb.Filename), pb.Line)
	if fb < fa {
		fa, fb = fb, fa
	}
	_ = bG
	label := fmt.Sprintf("data race: accesses at %s and %s (at least one a write) by two goroutines are not ordered by any synchronisation", fa, fb)
	m.violation(label, m.path.Model, "")
	m.path.Notes["races"]++
}

func shortFile(f string) string {
	for i := len(f) - 1; i >= 0; i-- {
		if f[i] == '/' {
			return f[i+1:]
		}
	}
	return f
}

func (m *Machine) isRepoNonHarness(file string) bool {
	d := m.P.RepoDir
	if d == "" {
		d = "/repo"
	}
	return len(file) > len(d)+1 && file[:len(d)+1] == d+"/" && !isHarnessFile(file)
}

func (m *Machine) raceAccess(p unsafe.Pointer, write bool) {
	if !m.race.on || p == nil {
		return
	}
	g := m.curG()
	c := m.vc(g)
	cs := m.race.cells[p]
	if cs == nil {
		cs = &cellState{}
		m.race.cells[p] = cs
	}
	pos := m.curPos()
	if cs.hasW && cs.w.g != g && c[cs.w.g] < cs.w.clk {
		kind := "write/read"
		if write {
			kind = "write/write"
		}
		m.raceReport(kind, cs.w, pos, g)
	}
	if write {
		for rg, r := range cs.reads {
			if rg != g && c[rg] < r.clk {
				m.raceReport("read/write", r, pos, g)
			}
		}
		cs.w, cs.hasW = epoch{g, c[g], pos}, true
		cs.reads = nil
	} else {
		if cs.reads == nil {
			cs.reads = map[int]epoch{}
		}
		cs.reads[g] = epoch{g, c[g], pos}
	}
}

func (m *Machine) raceCell(p *value, write bool) {
	if m.race.on {
		m.raceAccess(unsafe.Pointer(p), write)
	}
}

func (m *Machine) raceMap(om *omap, write bool) {
	if m.race.on && om != nil {
		m.raceAccess(unsafe.Pointer(om), write)
	}
}

// raceLoadStore records an access to the cell(s) of a value of type T at addr
// (struct and array cells are accessed field by field, as load/store do).
func (m *Machine) raceLoadStore(T types.Type, addr *value, write bool) {
	switch U := T.Underlying().(type) {
	case *types.Struct:
		if st, ok := (*addr).(structure); ok {
			for i := range st {
				m.raceLoadStore(U.Field(i).Type(), &st[i], write)
			}
			return
		}
	case *types.Array:
		if a, ok := (*addr).(array); ok {
			for i := range a {
				m.raceLoadStore(U.Elem(), &a[i], write)
			}
			return
		}
	}
	m.raceCell(addr, write)
}
