package interp

import (
	"fmt"
	"go/types"
	"unsafe"

	"gosym/sym"
)

// omap is the interpreter's map: slots in insertion order with first-free-slot
// reuse while the map has at most 8 slots (the Go 1.23 single-bucket layout),
// so that `range` can reproduce the orders the runtime produces for small
// maps: rotations of slot order.
type mentry struct {
	key  value
	val  value
	dead bool
	symk bool // key contains symbolic parts
}

type omap struct {
	keyType types.Type
	ents    []*mentry
	fast    map[value]int   // concrete keys of basic/pointer/chan kinds -> slot
	hashed  map[int][]int   // concrete aggregate keys: hash -> slots
	n       int             // live entries
	nsym    int             // live entries with symbolic keys
	useFast bool
}

func isFastKey(t types.Type) bool {
	switch t := t.Underlying().(type) {
	case *types.Basic, *types.Chan, *types.Pointer:
		return true
	case *types.Interface, *types.Array, *types.Struct:
		_ = t
		return false
	}
	panic(fmt.Sprintf("invalid map key type: %v", t))
}

func makeMap(kt types.Type) *omap {
	m := &omap{keyType: kt, useFast: isFastKey(kt)}
	if m.useFast {
		m.fast = map[value]int{}
	} else {
		m.hashed = map[int][]int{}
	}
	return m
}

func hasSym(v value) bool {
	switch v := v.(type) {
	case *sym.Term, symstr:
		return true
	case structure:
		for _, e := range v {
			if hasSym(e) {
				return true
			}
		}
	case array:
		for _, e := range v {
			if hasSym(e) {
				return true
			}
		}
	case iface:
		return hasSym(v.v)
	}
	return false
}

// hashV hashes a concrete comparable value.
func hashV(v value) int {
	switch x := v.(type) {
	case bool:
		if x {
			return 1
		}
		return 0
	case int:
		return x
	case int8:
		return int(x)
	case int16:
		return int(x)
	case int32:
		return int(x)
	case int64:
		return int(x)
	case uint:
		return int(x)
	case uint8:
		return int(x)
	case uint16:
		return int(x)
	case uint32:
		return int(x)
	case uint64:
		return int(x)
	case uintptr:
		return int(x)
	case float32:
		return int(x)
	case float64:
		return int(x)
	case complex64:
		return int(real(x))
	case complex128:
		return int(real(x))
	case string:
		return hashString(x)
	case *value:
		return int(uintptr(unsafe.Pointer(x)))
	case *ichan:
		return int(uintptr(unsafe.Pointer(x)))
	case *nativeObj:
		return int(uintptr(unsafe.Pointer(x)))
	case structure:
		h := 0
		for _, e := range x {
			h = h*31 + hashV(e)
		}
		return h
	case array:
		h := 0
		for _, e := range x {
			h = h*31 + hashV(e)
		}
		return h
	case iface:
		if x.t == nil {
			return 0
		}
		return hashType(x.t)*8581 + hashV(x.v)
	case rtype:
		return hashType(x.t)
	}
	panic(fmt.Sprintf("unhashable type %T", v))
}

// find returns the slot of key, or -1. It may fork when symbolic keys are involved.
func (om *omap) find(m *Machine, key value) int {
	if om == nil {
		return -1
	}
	ks := hasSym(key)
	if !ks {
		if om.useFast {
			if i, ok := om.fast[key]; ok {
				return i
			}
		} else {
			if it, ok := key.(iface); ok && it.t != nil && !types.Comparable(it.t) {
				panic(m.runtimeError(fmt.Sprintf("hash of unhashable type %s", it.t)))
			}
			for _, i := range om.hashed[hashV(key)] {
				e := om.ents[i]
				if !e.dead && m.equalsV(om.keyType, e.key, key) == true {
					return i
				}
			}
		}
		if om.nsym == 0 {
			return -1
		}
		for i, e := range om.ents {
			if e.dead || !e.symk {
				continue
			}
			if m.truth(m.equalsV(om.keyType, e.key, key)) {
				return i
			}
		}
		return -1
	}
	for i, e := range om.ents {
		if e.dead {
			continue
		}
		if m.truth(m.equalsV(om.keyType, e.key, key)) {
			return i
		}
	}
	return -1
}

func (om *omap) lookup(m *Machine, key value) (value, bool) {
	i := om.find(m, key)
	if i < 0 {
		return nil, false
	}
	return om.ents[i].val, true
}

func (om *omap) insert(m *Machine, key, val value) {
	if i := om.find(m, key); i >= 0 {
		om.ents[i].val = val
		return
	}
	e := &mentry{key: key, val: val, symk: hasSym(key)}
	slot := -1
	if len(om.ents) <= 8 {
		for i, o := range om.ents {
			if o.dead {
				slot = i
				break
			}
		}
	}
	if slot >= 0 {
		om.ents[slot] = e
	} else {
		slot = len(om.ents)
		om.ents = append(om.ents, e)
	}
	om.n++
	if e.symk {
		om.nsym++
	} else if om.useFast {
		om.fast[key] = slot
	} else {
		h := hashV(key)
		om.hashed[h] = append(om.hashed[h], slot)
	}
}

func (om *omap) delete(m *Machine, key value) {
	if om == nil {
		return
	}
	i := om.find(m, key)
	if i < 0 {
		return
	}
	e := om.ents[i]
	e.dead = true
	om.n--
	if e.symk {
		om.nsym--
	} else if om.useFast {
		delete(om.fast, e.key)
	} else {
		h := hashV(e.key)
		l := om.hashed[h]
		for j, s := range l {
			if s == i {
				om.hashed[h] = append(append([]int{}, l[:j]...), l[j+1:]...)
				break
			}
		}
	}
	// a trailing dead slot can be dropped (keeps big maps compact)
	for len(om.ents) > 8 && om.ents[len(om.ents)-1].dead {
		om.ents = om.ents[:len(om.ents)-1]
	}
}

func (om *omap) len() int {
	if om == nil {
		return 0
	}
	return om.n
}

func (om *omap) clear() {
	if om == nil {
		return
	}
	om.ents = nil
	om.n, om.nsym = 0, 0
	if om.useFast {
		om.fast = map[value]int{}
	} else {
		om.hashed = map[int][]int{}
	}
}

// mapIter iterates slots starting at a rotation offset.
type mapIter struct {
	om    *omap
	i     int // number of slots visited
	start int
}

func (it *mapIter) next(fr *frame) tuple {
	om := it.om
	if om == nil {
		return tuple{false, nil, nil}
	}
	for {
		n := len(om.ents)
		w := n
		if n <= 8 {
			w = 8
		}
		if it.i >= w {
			return tuple{false, nil, nil}
		}
		slot := (it.i + it.start) % w
		it.i++
		if slot >= n {
			continue
		}
		e := om.ents[slot]
		if e.dead {
			continue
		}
		return tuple{true, e.key, copyVal(e.val)}
	}
}
