package interp

import (
	"fmt"
	"go/token"
	"go/types"
	"math/bits"
	"os"
	"runtime"
	"strings"
	"sync"

	"golang.org/x/tools/go/ssa"

	"gosym/sym"
)

type continuation int

const (
	kNext continuation = iota
	kReturn
	kJump
)

// Program is the immutable, shared part: the SSA program and per-function tables.
type Program struct {
	Prog     *ssa.Program
	Fset     *token.FileSet
	RepoPath string // import path prefix of the code under test
	RepoDir  string // directory of the code under test
	fnInfos  sync.Map // *ssa.Function -> *fnInfo
	runtimeErrorString types.Type
	sizes    types.Sizes
	InitStd  map[string]bool // std packages whose init is interpreted
	Trace    bool
	rtypeMethods map[string]*ssa.Function
	reflectPkg *ssa.Package
	valueType  types.Type // reflect.Value
	typeIface  types.Type // reflect.Type
}

type fnInfo struct {
	idx   map[ssa.Value]int
	nregs int
	file  string
	intr  intrinsicFn
	isInit bool
	isRepo bool
	initPkg string
	chainMu sync.Mutex
	chains  map[*ssa.If]*eqChain
}

// eqChain describes `if x==c1 goto T; if x==c2 goto T; ...; else E`.
type eqChain struct {
	x         ssa.Value
	consts    []*ssa.Const
	blocks    []*ssa.BasicBlock
	target    *ssa.BasicBlock
	elseBlock *ssa.BasicBlock
}

func eqTest(b *ssa.BasicBlock, onlyThese bool) (*ssa.BinOp, *ssa.If) {
	n := len(b.Instrs)
	if n < 2 {
		return nil, nil
	}
	iff, ok := b.Instrs[n-1].(*ssa.If)
	if !ok {
		return nil, nil
	}
	bo, ok := iff.Cond.(*ssa.BinOp)
	if !ok || bo.Op != token.EQL || bo.Block() != b {
		return nil, nil
	}
	if _, ok := bo.Y.(*ssa.Const); !ok {
		return nil, nil
	}
	if bt, ok := bo.X.Type().Underlying().(*types.Basic); !ok || bt.Info()&types.IsInteger == 0 {
		return nil, nil
	}
	if refs := bo.Referrers(); refs == nil || len(*refs) != 1 {
		return nil, nil
	}
	if onlyThese && (n != 2 || b.Instrs[0] != ssa.Instruction(bo)) {
		return nil, nil
	}
	return bo, iff
}

func (fi *fnInfo) chainOf(iff *ssa.If) *eqChain {
	fi.chainMu.Lock()
	defer fi.chainMu.Unlock()
	if fi.chains == nil {
		fi.chains = map[*ssa.If]*eqChain{}
	}
	if ch, ok := fi.chains[iff]; ok {
		return ch
	}
	var ch *eqChain
	b0 := iff.Block()
	if bo, i0 := eqTest(b0, false); bo != nil && i0 == iff {
		c := &eqChain{x: bo.X, target: b0.Succs[0], consts: []*ssa.Const{bo.Y.(*ssa.Const)}, blocks: []*ssa.BasicBlock{b0}}
		next := b0.Succs[1]
		for {
			nb, _ := eqTest(next, true)
			if nb == nil || nb.X != bo.X || next.Succs[0] != c.target || len(next.Preds) != 1 {
				break
			}
			c.consts = append(c.consts, nb.Y.(*ssa.Const))
			c.blocks = append(c.blocks, next)
			next = next.Succs[1]
		}
		c.elseBlock = next
		ok := len(c.blocks) >= 2 && c.target != c.elseBlock
		// phis of the target must not distinguish the chain's edges
		if ok {
			for _, in := range c.target.Instrs {
				phi, isPhi := in.(*ssa.Phi)
				if !isPhi {
					break
				}
				var first ssa.Value
				for pi, pred := range c.target.Preds {
					for _, cb := range c.blocks {
						if pred == cb {
							if first == nil {
								first = phi.Edges[pi]
							} else if phi.Edges[pi] != first {
								ok = false
							}
						}
					}
				}
			}
		}
		if ok {
			ch = c
		}
	}
	fi.chains[iff] = ch
	return ch
}

type deferred struct {
	fn    value
	args  []value
	instr *ssa.Defer
	tail  *deferred
}

type frame struct {
	m                *Machine
	g                *goroutine
	caller           *frame
	fn               *ssa.Function
	info             *fnInfo
	block, prevBlock *ssa.BasicBlock
	env              []value
	locals           []value
	defers           *deferred
	result           value
	panicking        bool
	panic            interface{}
	phitemps         []value
	depth            int
}

// Machine is one interpreter instance (one per worker); path state is reset per path.
type Machine struct {
	P        *Program
	globals  map[*ssa.Global]*value
	path     *Path
	Steps    int64
	MaxSteps int64
	MaxDepth int
	sched    scheduler
	StepsByFile map[string]int64
	CountFiles  bool
	CallsByFn   map[string]int64
	stdInited   map[string]bool
	MapOrderSymbolic bool
	mapRotations int
	MapDeviationBudget int
	FuncsSeen map[*ssa.Function]bool
	events []string
	objs map[string]value
	Params map[string]int
	fallback func() []*sym.Solver
	emit     func(WorkItem)
	curInstr ssa.Instruction
	curFn    *ssa.Function
	ForkSites bool
	race      raceState
	envPool   [24][][]value
}

func NewProgram(prog *ssa.Program, repoPath string) *Program {
	p := &Program{Prog: prog, Fset: prog.Fset, RepoPath: repoPath, sizes: types.SizesFor("gc", "amd64")}
	rt := prog.ImportedPackage("runtime")
	if rt == nil {
		panic("program lacks package runtime")
	}
	p.runtimeErrorString = rt.Type("errorString").Object().Type()
	p.InitStd = map[string]bool{
		"strconv": true, "unicode": true, "unicode/utf8": true, "strings": true, "bytes": true,
		"sort": true, "container/list": true, "math": true, "math/bits": true,
		"slices": true, "cmp": true, "hash/fnv": true, "hash": true, "io": true, "context": true,
		"unicode/utf16": true, "errors": false,
	}
	initReflect(p)
	return p
}

// RegStat, when non-nil, accumulates registers allocated per function (debugging).
var RegStat map[string]int64
var regStatMu sync.Mutex

func NewMachine(p *Program) *Machine {
	m := &Machine{P: p, globals: map[*ssa.Global]*value{}, MaxSteps: 50_000_000, MaxDepth: 3000,
		stdInited: map[string]bool{}, FuncsSeen: map[*ssa.Function]bool{}}
	return m
}

func (p *Program) isRepoPkg(pkg *ssa.Package) bool {
	return pkg != nil && strings.HasPrefix(pkg.Pkg.Path(), p.RepoPath)
}

func (p *Program) info(fn *ssa.Function) *fnInfo {
	if v, ok := p.fnInfos.Load(fn); ok {
		return v.(*fnInfo)
	}
	fi := &fnInfo{idx: map[ssa.Value]int{}}
	n := 0
	add := func(v ssa.Value) {
		fi.idx[v] = n
		n++
	}
	for _, x := range fn.Params {
		add(x)
	}
	for _, x := range fn.FreeVars {
		add(x)
	}
	for _, b := range fn.Blocks {
		for _, in := range b.Instrs {
			if v, ok := in.(ssa.Value); ok {
				add(v)
			}
		}
	}
	fi.nregs = n
	if fn.Pos().IsValid() {
		fi.file = p.Fset.Position(fn.Pos()).Filename
	} else if fn.Parent() != nil && fn.Parent().Pos().IsValid() {
		fi.file = p.Fset.Position(fn.Parent().Pos()).Filename
	}
	pkg := fn.Pkg
	if pkg == nil && fn.Origin() != nil {
		pkg = fn.Origin().Pkg
	}
	if pkg == nil && fn.Parent() != nil {
		pkg = fn.Parent().Pkg
	}
	fi.isRepo = p.isRepoPkg(pkg)
	if fn.Name() == "init" && fn.Synthetic == "package initializer" {
		fi.isInit = true
		fi.initPkg = fn.Pkg.Pkg.Path()
	}
	if fn.Parent() == nil {
		fi.intr = lookupIntrinsic(fn)
	}
	v, _ := p.fnInfos.LoadOrStore(fn, fi)
	return v.(*fnInfo)
}

// ---------------------------------------------------------------- run-time errors

func (m *Machine) runtimeError(msg string) targetPanic {
	return targetPanic{iface{m.P.runtimeErrorString, msg}}
}

func (m *Machine) nilDeref() targetPanic {
	return m.runtimeError("invalid memory address or nil pointer dereference")
}

// ---------------------------------------------------------------- frames

func (fr *frame) get(key ssa.Value) value {
	switch key := key.(type) {
	case nil:
		return nil
	case *ssa.Function, *ssa.Builtin:
		return key
	case *ssa.Const:
		return constValue(key)
	case *ssa.Global:
		return fr.m.global(key)
	}
	if i, ok := fr.info.idx[key]; ok {
		return fr.env[i]
	}
	panic(engineError{fmt.Sprintf("get: no value for %T: %v", key, key.Name())})
}

func (fr *frame) set(key ssa.Value, v value) {
	fr.env[fr.info.idx[key]] = v
}

func (m *Machine) global(g *ssa.Global) *value {
	if r, ok := m.globals[g]; ok {
		return r
	}
	cell := zero(deref(g.Type()))
	m.globals[g] = &cell
	return &cell
}

// runDefer runs a deferred call d. It always returns normally, but may set or
// clear fr.panic.
func (fr *frame) runDefer(d *deferred) {
	var ok bool
	defer func() {
		if !ok {
			r := recover()
			if isEngineAbort(r) {
				panic(r)
			}
			fr.panicking = true
			fr.panic = r
		}
	}()
	fr.m.call(fr, d.instr.Pos(), d.fn, d.args)
	ok = true
}

func isEngineAbort(r interface{}) bool {
	switch r.(type) {
	case targetPanic:
		return false
	case nil:
		return false
	}
	return true
}

func (fr *frame) runDefers() {
	for d := fr.defers; d != nil; d = fr.defers {
		fr.defers = d.tail
		fr.runDefer(d)
	}
	fr.defers = nil
	if fr.panicking {
		panic(fr.panic)
	}
}

func (m *Machine) lookupMethod(typ types.Type, meth *types.Func) *ssa.Function {
	if typ == rtypeType {
		return m.P.rtypeMethods[meth.Name()]
	}
	return m.P.Prog.LookupMethod(typ, meth.Pkg(), meth.Name())
}

func (fr *frame) prepareCall(call *ssa.CallCommon) (fn value, args []value) {
	v := fr.get(call.Value)
	if call.Method == nil {
		fn = v
	} else {
		recv := v.(iface)
		if recv.t == nil {
			panic(fr.m.nilDeref())
		}
		f := fr.m.lookupMethod(recv.t, call.Method)
		if f == nil {
			panic(engineError{fmt.Sprintf("method set for dynamic type %v does not contain %s", recv.t, call.Method)})
		}
		fn = f
		args = append(args, recv.v)
	}
	for _, arg := range call.Args {
		args = append(args, copyVal(fr.get(arg)))
	}
	return
}

func (m *Machine) call(caller *frame, callpos token.Pos, fn value, args []value) value {
	switch fn := fn.(type) {
	case *ssa.Function:
		if fn == nil {
			panic(m.nilDeref())
		}
		return m.callSSA(caller, callpos, fn, args, nil)
	case *closure:
		return m.callSSA(caller, callpos, fn.Fn, args, fn.Env)
	case *ssa.Builtin:
		return m.callBuiltin(caller, callpos, fn, args)
	case *nativeFn:
		return fn.fn(caller, args)
	}
	panic(engineError{fmt.Sprintf("cannot call %T", fn)})
}

func (m *Machine) callSSA(caller *frame, callpos token.Pos, fn *ssa.Function, args []value, env []value) value {
	info := m.P.info(fn)
	fr := &frame{m: m, caller: caller, fn: fn, info: info}
	if caller != nil {
		fr.depth = caller.depth + 1
		fr.g = caller.g
		if fr.depth > m.MaxDepth {
			panic(pathAbort{PathBudget, "call depth budget exceeded in " + fn.String()})
		}
	}
	if m.P.Trace {
		fmt.Fprintf(os.Stderr, "%*sENTER %s\n", fr.depth, "", fn)
	}
	if info.intr != nil {
		return info.intr(fr, args)
	}
	if info.isInit {
		if !info.isRepo {
			if !m.P.InitStd[info.initPkg] || m.stdInited[info.initPkg] {
				return nil
			}
			m.stdInited[info.initPkg] = true
		}
	}
	if fn.Blocks == nil {
		if fn.Pkg != nil {
			fn.Pkg.Build()
		}
		if fn.Blocks == nil {
			panic(unsupported("no code for function %s", fn))
		}
		m.P.fnInfos.Delete(fn)
		info = m.P.info(fn)
		fr.info = info
	}
	if fn.TypeParams().Len() > 0 && len(fn.TypeArgs()) == 0 {
		panic(engineError{"generic function body: " + fn.String()})
	}
	if !m.FuncsSeen[fn] {
		m.FuncsSeen[fn] = true
	}
	if m.CallsByFn != nil {
		m.CallsByFn[fn.String()]++
	}
	if RegStat != nil {
		regStatMu.Lock()
		RegStat[fn.String()] += int64(info.nregs)
		regStatMu.Unlock()
	}
	fr.env = m.getEnv(info.nregs)
	fr.block = fn.Blocks[0]
	fr.locals = make([]value, len(fn.Locals))
	for i, l := range fn.Locals {
		fr.locals[i] = zero(deref(l.Type()))
		fr.env[info.idx[l]] = &fr.locals[i]
	}
	for i, p := range fn.Params {
		fr.env[info.idx[p]] = args[i]
	}
	for i, fv := range fn.FreeVars {
		fr.env[info.idx[fv]] = env[i]
	}
	for fr.block != nil {
		fr.runFrame()
	}
	// the registers die with the call (closures copy their bindings, locals live in fr.locals)
	m.putEnv(fr.env)
	fr.env = nil
	return fr.result
}

// Register files are recycled by size class: allocating and collecting one per
// call dominated the profile of Do-level harnesses.
func (m *Machine) getEnv(n int) []value {
	if n == 0 {
		return nil
	}
	c := bits.Len(uint(n - 1))
	if c < len(m.envPool) {
		if l := m.envPool[c]; len(l) > 0 {
			e := l[len(l)-1]
			m.envPool[c] = l[:len(l)-1]
			return e[:n]
		}
	}
	return make([]value, n, 1<<c)
}

func (m *Machine) putEnv(e []value) {
	if cap(e) == 0 {
		return
	}
	c := bits.Len(uint(cap(e) - 1))
	if c >= len(m.envPool) || len(m.envPool[c]) >= 64 {
		return
	}
	clear(e)
	m.envPool[c] = append(m.envPool[c], e)
}

// runFrame executes instructions until a return, a panic, or a recovered panic.
func (fr *frame) runFrame() {
	defer func() {
		if fr.block == nil {
			return // normal return
		}
		r := recover()
		if isEngineAbort(r) {
			panic(r)
		}
		fr.panicking = true
		fr.panic = r
		fr.runDefers()
		fr.block = fr.fn.Recover
		if fr.block == nil {
			// recovered in a function without named results: zero results
			fr.result = zeroResult(fr.fn)
		}
	}()
	m := fr.m
	for {
		nonPhis := fr.executePhis()
		for _, instr := range nonPhis {
			m.Steps++
			if m.Steps > m.MaxSteps {
				panic(pathAbort{PathBudget, "instruction budget exceeded"})
			}
			if m.CountFiles {
				m.StepsByFile[fr.info.file]++
			}
			m.curInstr, m.curFn = instr, fr.fn
			if fr.visitInstr(instr) == kReturn {
				return
			}
		}
	}
}

func zeroResult(fn *ssa.Function) value {
	res := fn.Signature.Results()
	switch res.Len() {
	case 0:
		return nil
	case 1:
		return zero(res.At(0).Type())
	}
	return zero(res)
}

func (fr *frame) executePhis() []ssa.Instruction {
	instrs := fr.block.Instrs
	firstNonPhi := 0
	for i, instr := range instrs {
		if _, ok := instr.(*ssa.Phi); !ok {
			firstNonPhi = i
			break
		}
	}
	if firstNonPhi > 0 {
		phis := instrs[:firstNonPhi]
		predIndex := -1
		for i, p := range fr.block.Preds {
			if p == fr.prevBlock {
				predIndex = i
				break
			}
		}
		fr.phitemps = fr.phitemps[:0]
		for _, phi := range phis {
			fr.phitemps = append(fr.phitemps, fr.get(phi.(*ssa.Phi).Edges[predIndex]))
		}
		for i, phi := range phis {
			fr.set(phi.(*ssa.Phi), fr.phitemps[i])
		}
	}
	return instrs[firstNonPhi:]
}

func (fr *frame) visitInstr(instr ssa.Instruction) continuation {
	m := fr.m
	switch instr := instr.(type) {
	case *ssa.DebugRef:
		// no-op

	case *ssa.UnOp:
		if instr.Op == token.ARROW {
			fr.set(instr, m.chanRecv(fr, instr))
		} else if instr.Op == token.MUL && m.race.on {
			if p, ok := fr.get(instr.X).(*value); ok && p != nil {
				m.raceLoadStore(deref(instr.X.Type()), p, false)
			}
			fr.set(instr, m.unop(instr, fr.get(instr.X)))
		} else {
			fr.set(instr, m.unop(instr, fr.get(instr.X)))
		}

	case *ssa.BinOp:
		x, y := fr.get(instr.X), fr.get(instr.Y)
		if instr.Op == token.SHL || instr.Op == token.SHR {
			if yt, ok := y.(*sym.Term); ok {
				if _, signed := basicSort(instr.Y.Type()); signed {
					neg := m.ctx().Bin(sym.OpSLt, yt, m.ctx().Const(yt.Sort, 0))
					if m.truth(lowerBool(neg)) {
						panic(m.runtimeError("negative shift amount"))
					}
				}
			}
		}
		fr.set(instr, m.binop(instr.Op, instr.X.Type(), x, y))

	case *ssa.Call:
		fn, args := fr.prepareCall(&instr.Call)
		fr.set(instr, m.call(fr, instr.Pos(), fn, args))

	case *ssa.ChangeInterface:
		fr.set(instr, fr.get(instr.X))

	case *ssa.ChangeType:
		fr.set(instr, fr.get(instr.X))

	case *ssa.Convert:
		fr.set(instr, m.conv(instr.Type(), instr.X.Type(), fr.get(instr.X)))

	case *ssa.SliceToArrayPointer:
		panic(unsupported("SliceToArrayPointer"))

	case *ssa.MakeInterface:
		fr.set(instr, iface{t: instr.X.Type(), v: copyVal(fr.get(instr.X))})

	case *ssa.Extract:
		fr.set(instr, fr.get(instr.Tuple).(tuple)[instr.Index])

	case *ssa.Slice:
		fr.set(instr, m.slice(instr, fr.get(instr.X), fr.get(instr.Low), fr.get(instr.High), fr.get(instr.Max)))

	case *ssa.Return:
		switch len(instr.Results) {
		case 0:
		case 1:
			fr.result = fr.get(instr.Results[0])
		default:
			res := make([]value, 0, len(instr.Results))
			for _, r := range instr.Results {
				res = append(res, fr.get(r))
			}
			fr.result = tuple(res)
		}
		fr.block = nil
		return kReturn

	case *ssa.RunDefers:
		fr.runDefers()

	case *ssa.Panic:
		panic(targetPanic{fr.get(instr.X)})

	case *ssa.Send:
		m.chanSend(fr, fr.get(instr.Chan).(*ichan), fr.get(instr.X))

	case *ssa.Store:
		p := fr.get(instr.Addr).(*value)
		if p == nil {
			panic(m.nilDeref())
		}
		if m.race.on {
			m.raceLoadStore(deref(instr.Addr.Type()), p, true)
		}
		store(deref(instr.Addr.Type()), p, fr.get(instr.Val))

	case *ssa.If:
		cv := fr.get(instr.Cond)
		if ct, ok := cv.(*sym.Term); ok && !ct.IsConst() {
			if ch := fr.info.chainOf(instr); ch != nil {
				// `case a, b, c:` lowered to a chain of equality tests with one
				// target: decide the disjunction once instead of forking per value
				c := m.ctx()
				x := m.toTerm(fr.get(ch.x))
				acc := c.False
				for _, k := range ch.consts {
					acc = c.Or(acc, c.Eq(x, m.toTerm(constValue(k))))
				}
				if m.truth(lowerBool(acc)) {
					fr.prevBlock, fr.block = ch.blocks[0], ch.target
				} else {
					fr.prevBlock, fr.block = ch.blocks[len(ch.blocks)-1], ch.elseBlock
				}
				return kJump
			}
		}
		succ := 1
		if m.truth(cv) {
			succ = 0
		}
		fr.prevBlock, fr.block = fr.block, fr.block.Succs[succ]
		return kJump

	case *ssa.Jump:
		fr.prevBlock, fr.block = fr.block, fr.block.Succs[0]
		return kJump

	case *ssa.Defer:
		fn, args := fr.prepareCall(&instr.Call)
		defers := &fr.defers
		if instr.DeferStack != nil {
			if into := fr.get(instr.DeferStack); into != nil {
				defers = into.(**deferred)
			}
		}
		*defers = &deferred{fn: fn, args: args, instr: instr, tail: *defers}

	case *ssa.Go:
		fn, args := fr.prepareCall(&instr.Call)
		m.spawn(fr, instr.Pos(), fn, args)

	case *ssa.MakeChan:
		n := m.concreteInt(fr.get(instr.Size))
		fr.set(instr, &ichan{cap: int(n), id: m.nextChanID()})

	case *ssa.Alloc:
		var addr *value
		if instr.Heap {
			addr = new(value)
			fr.set(instr, addr)
		} else {
			addr = fr.env[fr.info.idx[instr]].(*value)
		}
		*addr = zero(deref(instr.Type()))

	case *ssa.MakeSlice:
		capn := m.concreteInt(fr.get(instr.Cap))
		lenn := m.concreteInt(fr.get(instr.Len))
		if lenn < 0 || capn < lenn || capn > 1<<24 {
			panic(m.runtimeError("makeslice: len out of range"))
		}
		slice := make([]value, capn)
		tElt := instr.Type().Underlying().(*types.Slice).Elem()
		for i := range slice {
			slice[i] = zero(tElt)
		}
		fr.set(instr, slice[:lenn])

	case *ssa.MakeMap:
		fr.set(instr, makeMap(instr.Type().Underlying().(*types.Map).Key()))

	case *ssa.Range:
		fr.set(instr, m.rangeIter(fr.get(instr.X), instr.X.Type()))

	case *ssa.Next:
		fr.set(instr, fr.get(instr.Iter).(iter).next(fr))

	case *ssa.FieldAddr:
		p := fr.get(instr.X).(*value)
		if p == nil {
			panic(m.nilDeref())
		}
		fr.set(instr, &(*p).(structure)[instr.Field])

	case *ssa.Field:
		fr.set(instr, fr.get(instr.X).(structure)[instr.Field])

	case *ssa.IndexAddr:
		x := fr.get(instr.X)
		idx := fr.get(instr.Index)
		switch x := x.(type) {
		case []value:
			i := m.index(idx, len(x), instr.Index.Type())
			fr.set(instr, &x[i])
		case *value: // *array
			if x == nil {
				panic(m.nilDeref())
			}
			a := (*x).(array)
			i := m.index(idx, len(a), instr.Index.Type())
			fr.set(instr, &a[i])
		default:
			panic(engineError{fmt.Sprintf("unexpected x type in IndexAddr: %T", x)})
		}

	case *ssa.Index:
		x := fr.get(instr.X)
		idx := fr.get(instr.Index)
		switch x := x.(type) {
		case array:
			if it, ok := idx.(*sym.Term); ok && len(x) <= 512 && allScalar(x) {
				fr.set(instr, m.symIndexArr(x, it, instr.Index.Type(), instr.Type()))
			} else {
				fr.set(instr, x[m.index(idx, len(x), instr.Index.Type())])
			}
		case string:
			if it, ok := idx.(*sym.Term); ok {
				fr.set(instr, m.symIndexStr(strBytes(x), it, instr.Index.Type()))
			} else {
				fr.set(instr, x[m.index(idx, len(x), instr.Index.Type())])
			}
		case symstr:
			if it, ok := idx.(*sym.Term); ok {
				fr.set(instr, m.symIndexStr(x, it, instr.Index.Type()))
			} else {
				fr.set(instr, x[m.index(idx, len(x), instr.Index.Type())])
			}
		default:
			panic(engineError{fmt.Sprintf("unexpected x type in Index: %T", x)})
		}

	case *ssa.Lookup:
		x := fr.get(instr.X)
		key := fr.get(instr.Index)
		if isStr(x) { // string index via Lookup
			b := strBytes(x)
			fr.set(instr, b[m.index(key, len(b), instr.Index.Type())])
			break
		}
		om := x.(*omap)
		m.raceMap(om, false)
		v, ok := om.lookup(m, key)
		if !ok {
			v = zero(instr.X.Type().Underlying().(*types.Map).Elem())
		} else {
			v = copyVal(v)
		}
		if instr.CommaOk {
			v = tuple{v, ok}
		}
		fr.set(instr, v)

	case *ssa.MapUpdate:
		om := fr.get(instr.Map).(*omap)
		if om == nil {
			panic(targetPanic{iface{m.P.runtimeErrorString, "assignment to entry in nil map"}})
		}
		m.raceMap(om, true)
		om.insert(m, copyVal(fr.get(instr.Key)), copyVal(fr.get(instr.Value)))

	case *ssa.TypeAssert:
		fr.set(instr, m.typeAssert(instr, fr.get(instr.X).(iface)))

	case *ssa.MakeClosure:
		bindings := make([]value, 0, len(instr.Bindings))
		for _, binding := range instr.Bindings {
			bindings = append(bindings, fr.get(binding))
		}
		fr.set(instr, &closure{instr.Fn.(*ssa.Function), bindings})

	case *ssa.Select:
		fr.set(instr, m.chanSelect(fr, instr))

	default:
		panic(engineError{fmt.Sprintf("unexpected instruction: %T", instr)})
	}
	return kNext
}

// concreteInt resolves an integer value, enumerating feasible values if symbolic.
func (m *Machine) concreteInt(v value) int64 {
	if t, ok := v.(*sym.Term); ok {
		u := m.concretize(t)
		switch t.Sort {
		case sym.BV8:
			return int64(int8(u))
		case sym.BV16:
			return int64(int16(u))
		case sym.BV32:
			return int64(int32(u))
		}
		return int64(u)
	}
	return asInt64(v)
}

// inRange builds 0 <= it < n for an index term of static type t.
func (m *Machine) inRange(it *sym.Term, n int, t types.Type) value {
	c := m.ctx()
	_, signed := basicSort(t)
	bits := it.Sort.Bits()
	if signed {
		nonneg := c.Bin(sym.OpSLe, c.Const(it.Sort, 0), it)
		if bits < 64 && uint64(n) > (uint64(1)<<uint(bits-1))-1 {
			return lowerBool(nonneg)
		}
		return lowerBool(c.And(nonneg, c.Bin(sym.OpSLt, it, c.Const(it.Sort, uint64(n)))))
	}
	if bits < 64 && uint64(n) > (uint64(1)<<uint(bits))-1 {
		return true
	}
	return lowerBool(c.Bin(sym.OpULt, it, c.Const(it.Sort, uint64(n))))
}

// index checks 0 <= idx < n and returns a concrete index (forking if symbolic).
func (m *Machine) index(idx value, n int, t types.Type) int {
	if it, ok := idx.(*sym.Term); ok {
		if !m.truth(m.inRange(it, n, t)) {
			panic(m.runtimeError(fmt.Sprintf("index out of range [%s] with length %d", "?", n)))
		}
		return int(m.concretize(it))
	}
	i := asInt64(idx)
	if _, ok := idx.(uint64); ok && asUint64(idx) > uint64(n) {
		panic(m.runtimeError(fmt.Sprintf("index out of range [%d] with length %d", asUint64(idx), n)))
	}
	if i < 0 || i >= int64(n) {
		panic(m.runtimeError(fmt.Sprintf("index out of range [%d] with length %d", i, n)))
	}
	return int(i)
}

// symIndexStr reads b[idx] for symbolic idx as an ITE chain (no fork except bounds).
func (m *Machine) symIndexStr(b []value, it *sym.Term, t types.Type) value {
	c := m.ctx()
	n := len(b)
	if !m.truth(m.inRange(it, n, t)) {
		panic(m.runtimeError(fmt.Sprintf("index out of range [%s] with length %d", "?", n)))
	}
	if n > 64 {
		return b[int(m.concretize(it))]
	}
	acc := m.toTerm(b[n-1])
	for i := n - 2; i >= 0; i-- {
		acc = c.Ite(c.Eq(it, c.Const(it.Sort, uint64(i))), m.toTerm(b[i]), acc)
	}
	return lower(types.Typ[types.Uint8], acc)
}

func allScalar(a []value) bool {
	for _, v := range a {
		switch v.(type) {
		case bool, int, int8, int16, int32, int64, uint, uint8, uint16, uint32, uint64, uintptr, *sym.Term:
		default:
			return false
		}
	}
	return true
}

// symIndexArr reads a[idx] for a symbolic index over scalar elements as an ITE chain.
func (m *Machine) symIndexArr(a []value, it *sym.Term, idxT, elemT types.Type) value {
	c := m.ctx()
	n := len(a)
	if !m.truth(m.inRange(it, n, idxT)) {
		panic(m.runtimeError(fmt.Sprintf("index out of range [%s] with length %d", "?", n)))
	}
	acc := m.toTerm(a[n-1])
	for i := n - 2; i >= 0; i-- {
		e := m.toTerm(a[i])
		if e == acc {
			continue
		}
		acc = c.Ite(c.Eq(it, c.Const(it.Sort, uint64(i))), e, acc)
	}
	return lower(elemT, acc)
}

// slice returns x[lo:hi:max].
func (m *Machine) slice(instr *ssa.Slice, x, lo, hi, max value) value {
	var Len, Cap int
	switch x := x.(type) {
	case string:
		Len = len(x)
		Cap = Len
	case symstr:
		Len = len(x)
		Cap = Len
	case []value:
		Len = len(x)
		Cap = cap(x)
	case *value:
		if x == nil {
			panic(m.nilDeref())
		}
		a := (*x).(array)
		Len = len(a)
		Cap = cap(a)
	}
	l := int64(0)
	if lo != nil {
		l = m.concreteInt(lo)
	}
	h := int64(Len)
	if hi != nil {
		h = m.concreteInt(hi)
	}
	mx := int64(Cap)
	if max != nil {
		mx = m.concreteInt(max)
	}
	if isStr(x) {
		if h < 0 || h > int64(Len) {
			panic(m.runtimeError(fmt.Sprintf("slice bounds out of range [:%d] with length %d", h, Len)))
		}
		if l < 0 || l > h {
			panic(m.runtimeError(fmt.Sprintf("slice bounds out of range [%d:%d]", l, h)))
		}
	} else {
		if mx < 0 || mx > int64(Cap) {
			panic(m.runtimeError(fmt.Sprintf("slice bounds out of range [::%d] with capacity %d", mx, Cap)))
		}
		if h < 0 || h > mx {
			panic(m.runtimeError(fmt.Sprintf("slice bounds out of range [:%d] with capacity %d", h, mx)))
		}
		if l < 0 || l > h {
			panic(m.runtimeError(fmt.Sprintf("slice bounds out of range [%d:%d]", l, h)))
		}
	}
	switch x := x.(type) {
	case string:
		return x[l:h]
	case symstr:
		return normStr(x[l:h:h])
	case []value:
		return x[l:h:mx]
	case *value:
		a := (*x).(array)
		return []value(a)[l:h:mx]
	}
	panic(engineError{fmt.Sprintf("slice: unexpected X type: %T", x)})
}

func (m *Machine) typeAssert(instr *ssa.TypeAssert, itf iface) value {
	var v value
	var err func() string
	if itf.t == nil {
		err = func() string {
			return fmt.Sprintf("interface conversion: interface is nil, not %s", typeStr(instr.AssertedType))
		}
	} else if idst, ok := instr.AssertedType.Underlying().(*types.Interface); ok {
		v = itf
		if meth, _ := types.MissingMethod(itf.t, idst, true); meth != nil {
			err = func() string {
				return fmt.Sprintf("interface conversion: %s is not %s: missing method %s", typeStr(itf.t), typeStr(instr.AssertedType), meth.Name())
			}
		}
	} else if itf.t == instr.AssertedType || types.Identical(itf.t, instr.AssertedType) {
		v = itf.v
	} else {
		err = func() string {
			return fmt.Sprintf("interface conversion: %s is %s, not %s", typeStr(instr.X.Type()), typeStr(itf.t), typeStr(instr.AssertedType))
		}
	}
	if err != nil {
		if !instr.CommaOk {
			panic(targetPanic{iface{m.P.runtimeErrorString, err()}})
		}
		return tuple{zero(instr.AssertedType), false}
	}
	if instr.CommaOk {
		return tuple{v, true}
	}
	return v
}

// typeStr renders a type the way the Go runtime does in messages.
func typeStr(t types.Type) string {
	return types.TypeString(t, func(p *types.Package) string { return p.Name() })
}

func (m *Machine) callBuiltin(caller *frame, callpos token.Pos, fn *ssa.Builtin, args []value) value {
	switch fn.Name() {
	case "append":
		if len(args) == 1 {
			return args[0]
		}
		if isStr(args[1]) {
			return append(args[0].([]value), strBytes(args[1])...)
		}
		src := args[1].([]value)
		cp := make([]value, len(src))
		for i := range src {
			cp[i] = copyVal(src[i])
		}
		dst := args[0].([]value)
		// Go's growth: when capacity is exceeded a new array is allocated. Mirror
		// that exactly enough for aliasing: append in place iff it fits.
		if len(dst)+len(cp) <= cap(dst) {
			if m.race.on {
				full := dst[:len(dst)+len(cp)]
				for i := len(dst); i < len(full); i++ {
					m.raceCell(&full[i], true)
				}
			}
			return append(dst, cp...)
		}
		nd := make([]value, len(dst), growCap(cap(dst), len(dst)+len(cp)))
		copy(nd, dst)
		return append(nd, cp...)

	case "copy":
		src := args[1]
		if isStr(src) {
			src = strBytes(src)
		}
		s := src.([]value)
		d := args[0].([]value)
		n := len(s)
		if len(d) < n {
			n = len(d)
		}
		tmp := make([]value, n)
		for i := 0; i < n; i++ {
			tmp[i] = copyVal(s[i])
		}
		copy(d, tmp)
		return n

	case "close":
		m.chanClose(caller, args[0].(*ichan))
		return nil

	case "delete":
		m.raceMap(args[0].(*omap), true)
		args[0].(*omap).delete(m, args[1])
		return nil

	case "clear":
		switch x := args[0].(type) {
		case *omap:
			x.clear()
		default:
			panic(unsupported("clear(%T)", x))
		}
		return nil

	case "print", "println":
		ln := fn.Name() == "println"
		var sb strings.Builder
		for i, arg := range args {
			if i > 0 && ln {
				sb.WriteByte(' ')
			}
			sb.WriteString(toString(arg))
		}
		if ln {
			sb.WriteByte('\n')
		}
		os.Stderr.WriteString(sb.String())
		return nil

	case "len":
		switch x := args[0].(type) {
		case string:
			return len(x)
		case symstr:
			return len(x)
		case array:
			return len(x)
		case *value:
			return len((*x).(array))
		case []value:
			return len(x)
		case *omap:
			m.raceMap(x, false)
			return x.len()
		case *ichan:
			if x == nil {
				return 0
			}
			return len(x.buf)
		default:
			panic(engineError{fmt.Sprintf("len: illegal operand: %T", x)})
		}

	case "cap":
		switch x := args[0].(type) {
		case array:
			return cap(x)
		case *value:
			return cap((*x).(array))
		case []value:
			return cap(x)
		case *ichan:
			if x == nil {
				return 0
			}
			return x.cap
		default:
			panic(engineError{fmt.Sprintf("cap: illegal operand: %T", x)})
		}

	case "min":
		return foldLeft(min, args)
	case "max":
		return foldLeft(max, args)

	case "panic":
		panic(targetPanic{args[0]})

	case "recover":
		return m.doRecover(caller)

	case "ssa:wrapnilchk":
		recv := args[0]
		if recv.(*value) == nil {
			panic(m.runtimeError(fmt.Sprintf("value method %s.%s called using nil *%s pointer", args[1], args[2], args[1])))
		}
		return recv

	case "ssa:deferstack":
		return &caller.defers
	}
	panic(unsupported("built-in %s", fn.Name()))
}

// growCap approximates Go's append growth (the exact capacity is only
// observable through cap() and through aliasing after a later append).
func growCap(old, need int) int {
	newcap := old
	doublecap := newcap + newcap
	if need > doublecap {
		return need
	}
	const threshold = 256
	if old < threshold {
		if doublecap == 0 {
			return need
		}
		return doublecap
	}
	for newcap < need {
		newcap += (newcap + 3*threshold) >> 2
	}
	return newcap
}

func (m *Machine) doRecover(caller *frame) value {
	// recover() must be exactly one level beneath the deferred function.
	if caller != nil && !caller.panicking && caller.caller != nil && caller.caller.panicking {
		caller.caller.panicking = false
		p := caller.caller.panic
		caller.caller.panic = nil
		switch p := p.(type) {
		case targetPanic:
			return p.v
		default:
			panic(engineError{fmt.Sprintf("unexpected panic type %T in target call to recover()", p)})
		}
	}
	return iface{}
}

var _ = runtime.GC
