// Package interp is gosym's symbolic executor for go/ssa. It started from
// golang.org/x/tools/go/ssa/interp (BSD licence, The Go Authors) and keeps its
// boxed value representation; symbolic scalars, symbolic strings, an ordered
// map, a baton scheduler, explicit run-time panics, path forking and the zz*
// harness intrinsics are additions.
package interp

// Values
//
// - bool, all Go numeric types, string                 (concrete scalars)
// - *sym.Term                                          (symbolic bool / integer / float)
// - symstr                                             (string with >=1 symbolic byte)
// - *omap                                              (maps)
// - *ichan                                             (channels)
// - []value                                            (slices; cells may hold *sym.Term)
// - iface, structure, array, *value, tuple, iter
// - *ssa.Function, *ssa.Builtin, *closure, *nativeFn   (functions)
// - rtype                                              (reflect.Type implementation)
// - *nativeObj                                         (opaque native Go object, e.g. *regexp.Regexp)

import (
	"bytes"
	"fmt"
	"go/types"
	"strings"
	"unsafe"

	"golang.org/x/tools/go/ssa"
	"golang.org/x/tools/go/types/typeutil"

	"gosym/sym"
)

type value interface{}

type tuple []value

type array []value

type iface struct {
	t types.Type // never an "untyped" type
	v value
}

type structure []value

// symstr is a string at least one of whose bytes is symbolic. Each element is
// a uint8 or a *sym.Term of sort BV8. Strings are immutable so backing arrays
// may be shared.
type symstr []value

type iter interface {
	next(fr *frame) tuple
}

type closure struct {
	Fn  *ssa.Function
	Env []value
}

// nativeFn is a function value implemented by the engine.
type nativeFn struct {
	name string
	fn   func(fr *frame, args []value) value
}

// nativeObj wraps a native Go object that the target only handles opaquely.
type nativeObj struct {
	v interface{}
}

type bad struct{}

type rtype struct {
	t types.Type
}

var hasher = typeutil.MakeHasher()

func hashType(t types.Type) int { return int(hasher.Hash(t)) }

func hashString(s string) int {
	var h uint32
	for i := 0; i < len(s); i++ {
		h ^= uint32(s[i])
		h *= 16777619
	}
	return int(h)
}

// nil-tolerant variant of types.Identical.
func sameType(x, y types.Type) bool {
	if x == nil {
		return y == nil
	}
	return y != nil && types.Identical(x, y)
}

// normStr returns a Go string if all bytes of s are concrete, else s.
func normStr(s symstr) value {
	for _, b := range s {
		if _, ok := b.(*sym.Term); ok {
			return s
		}
	}
	bs := make([]byte, len(s))
	for i, b := range s {
		bs[i] = b.(uint8)
	}
	return string(bs)
}

// strBytes returns the bytes of a string value (string or symstr) as a value slice.
func strBytes(x value) []value {
	switch x := x.(type) {
	case string:
		r := make([]value, len(x))
		for i := 0; i < len(x); i++ {
			r[i] = x[i]
		}
		return r
	case symstr:
		return []value(x)
	}
	panic(fmt.Sprintf("strBytes: %T", x))
}

func strLen(x value) int {
	switch x := x.(type) {
	case string:
		return len(x)
	case symstr:
		return len(x)
	}
	panic(fmt.Sprintf("strLen: %T", x))
}

// equalsV returns x == y for type t as a bool or a *sym.Term (Bool).
func (m *Machine) equalsV(t types.Type, x, y value) value {
	switch x := x.(type) {
	case *sym.Term:
		return m.symEq(x, y)
	case symstr:
		return m.strEq(x, y)
	case bool:
		if yt, ok := y.(*sym.Term); ok {
			return m.symEq(yt, x)
		}
		return x == y.(bool)
	case string:
		if ys, ok := y.(symstr); ok {
			return m.strEq(ys, x)
		}
		return x == y.(string)
	case int, int8, int16, int32, int64, uint, uint8, uint16, uint32, uint64, uintptr, float32, float64:
		if yt, ok := y.(*sym.Term); ok {
			return m.symEq(yt, x)
		}
		if fx, ok := x.(float64); ok {
			return fx == y.(float64)
		}
		if fx, ok := x.(float32); ok {
			return fx == y.(float32)
		}
		return x == y
	case complex64:
		return x == y.(complex64)
	case complex128:
		return x == y.(complex128)
	case *value:
		return x == y.(*value)
	case *ichan:
		return x == y.(*ichan)
	case *nativeObj:
		return x == y.(*nativeObj)
	case unsafe.Pointer:
		return x == y.(unsafe.Pointer)
	case structure:
		ys := y.(structure)
		tStruct := t.Underlying().(*types.Struct)
		var acc value = true
		for i, n := 0, tStruct.NumFields(); i < n; i++ {
			f := tStruct.Field(i)
			if f.Name() == "_" {
				continue
			}
			acc = m.andV(acc, m.equalsV(f.Type(), x[i], ys[i]))
			if acc == false {
				return false
			}
		}
		return acc
	case array:
		ya := y.(array)
		tElt := t.Underlying().(*types.Array).Elem()
		var acc value = true
		for i := range x {
			acc = m.andV(acc, m.equalsV(tElt, x[i], ya[i]))
			if acc == false {
				return false
			}
		}
		return acc
	case iface:
		yi := y.(iface)
		if !sameType(x.t, yi.t) {
			return false
		}
		if x.t == nil {
			return true
		}
		if x.t == rtypeType {
			return types.Identical(x.v.(rtype).t, yi.v.(rtype).t)
		}
		if !types.Comparable(x.t) {
			panic(m.runtimeError(fmt.Sprintf("comparing uncomparable type %s", x.t)))
		}
		return m.equalsV(x.t, x.v, yi.v)
	case rtype:
		return types.Identical(x.t, y.(rtype).t)
	}
	panic(m.runtimeError(fmt.Sprintf("comparing uncomparable type %s", t)))
}

func (m *Machine) andV(a, b value) value {
	if ab, ok := a.(bool); ok {
		if !ab {
			return false
		}
		return b
	}
	if bb, ok := b.(bool); ok {
		if !bb {
			return false
		}
		return a
	}
	return m.ctx().And(a.(*sym.Term), b.(*sym.Term))
}

func (m *Machine) notV(a value) value {
	if ab, ok := a.(bool); ok {
		return !ab
	}
	return m.ctx().Not(a.(*sym.Term))
}

// load returns the value of type T in *addr.
func load(T types.Type, addr *value) value {
	switch T := T.Underlying().(type) {
	case *types.Struct:
		v := (*addr).(structure)
		a := make(structure, len(v))
		for i := range a {
			a[i] = load(T.Field(i).Type(), &v[i])
		}
		return a
	case *types.Array:
		v := (*addr).(array)
		a := make(array, len(v))
		for i := range a {
			a[i] = load(T.Elem(), &v[i])
		}
		return a
	default:
		return *addr
	}
}

// store stores value v of type T into *addr.
func store(T types.Type, addr *value, v value) {
	switch T := T.Underlying().(type) {
	case *types.Struct:
		lhs := (*addr).(structure)
		rhs := v.(structure)
		for i := range lhs {
			store(T.Field(i).Type(), &lhs[i], rhs[i])
		}
	case *types.Array:
		lhs := (*addr).(array)
		rhs := v.(array)
		for i := range lhs {
			store(T.Elem(), &lhs[i], rhs[i])
		}
	default:
		*addr = v
	}
}

// copyVal makes an unaliased copy of an aggregate value (structs and arrays
// are values in Go).
func copyVal(v value) value {
	switch v := v.(type) {
	case structure:
		a := make(structure, len(v))
		for i := range v {
			a[i] = copyVal(v[i])
		}
		return a
	case array:
		a := make(array, len(v))
		for i := range v {
			a[i] = copyVal(v[i])
		}
		return a
	}
	return v
}

func writeValue(buf *bytes.Buffer, v value) {
	switch v := v.(type) {
	case nil, bool, int, int8, int16, int32, int64, uint, uint8, uint16, uint32, uint64, uintptr, float32, float64, complex64, complex128, string:
		fmt.Fprintf(buf, "%v", v)
	case *sym.Term:
		buf.WriteString("<sym " + v.String() + ">")
	case symstr:
		buf.WriteString("<symstr ")
		for _, b := range v {
			if c, ok := b.(uint8); ok {
				fmt.Fprintf(buf, "%c", c)
			} else {
				buf.WriteString("?")
			}
		}
		buf.WriteString(">")
	case *omap:
		buf.WriteString("map[")
		if v != nil {
			sep := ""
			for _, e := range v.ents {
				if e.dead {
					continue
				}
				buf.WriteString(sep)
				sep = " "
				writeValue(buf, e.key)
				buf.WriteString(":")
				writeValue(buf, e.val)
			}
		}
		buf.WriteString("]")
	case *ichan:
		fmt.Fprintf(buf, "%p", v)
	case *value:
		if v == nil {
			buf.WriteString("<nil>")
		} else {
			fmt.Fprintf(buf, "%p", v)
		}
	case iface:
		fmt.Fprintf(buf, "(%s, ", v.t)
		writeValue(buf, v.v)
		buf.WriteString(")")
	case structure:
		buf.WriteString("{")
		for i, e := range v {
			if i > 0 {
				buf.WriteString(" ")
			}
			writeValue(buf, e)
		}
		buf.WriteString("}")
	case array:
		buf.WriteString("[")
		for i, e := range v {
			if i > 0 {
				buf.WriteString(" ")
			}
			writeValue(buf, e)
		}
		buf.WriteString("]")
	case []value:
		buf.WriteString("[")
		for i, e := range v {
			if i > 0 {
				buf.WriteString(" ")
			}
			writeValue(buf, e)
		}
		buf.WriteString("]")
	case *ssa.Function, *ssa.Builtin, *closure, *nativeFn:
		fmt.Fprintf(buf, "%p", v)
	case rtype:
		buf.WriteString(v.t.String())
	case tuple:
		buf.WriteString("(")
		for i, e := range v {
			if i > 0 {
				buf.WriteString(", ")
			}
			writeValue(buf, e)
		}
		buf.WriteString(")")
	default:
		fmt.Fprintf(buf, "<%T>", v)
	}
}

func toString(v value) string {
	var b bytes.Buffer
	writeValue(&b, v)
	return b.String()
}

var _ = strings.Join
