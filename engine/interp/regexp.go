package interp

import (
	"regexp"

	"gosym/sym"
)

// Regular expressions: concrete text goes to the real regexp package. For text
// with symbolic bytes only the two patterns the repository uses are modelled,
// as explicit scanners; the models are validated against the real regexp
// package by `gosym selftest` (exhaustive small alphabets).

const (
	reLineTerm = "\r\n|[\n\r]"
	reName     = "^[_a-zA-Z][_a-zA-Z0-9]*$"
)

func concreteBytes(b []value) ([]byte, bool) {
	out := make([]byte, len(b))
	for i, x := range b {
		c, ok := x.(uint8)
		if !ok {
			return nil, false
		}
		out[i] = c
	}
	return out, true
}

func (m *Machine) reMatchString(re *regexp.Regexp, s value) value {
	if cs, ok := s.(string); ok {
		return re.MatchString(cs)
	}
	if re.String() != reName {
		panic(unsupported("regexp %q on symbolic text", re.String()))
	}
	b := strBytes(s)
	if len(b) == 0 {
		return false
	}
	c := m.ctx()
	in := func(x *sym.Term, lo, hi byte) *sym.Term {
		return c.And(c.Bin(sym.OpULe, c.Const(sym.BV8, uint64(lo)), x), c.Bin(sym.OpULe, x, c.Const(sym.BV8, uint64(hi))))
	}
	acc := c.True
	for i, x := range b {
		t := m.toTerm(x)
		ok := c.Or(c.Eq(t, c.Const(sym.BV8, '_')), c.Or(in(t, 'a', 'z'), in(t, 'A', 'Z')))
		if i > 0 {
			ok = c.Or(ok, in(t, '0', '9'))
		}
		acc = c.And(acc, ok)
	}
	return lowerBool(acc)
}

// lineTermMatches returns the [start,end) pairs of \r\n|[\n\r] matches, forking on symbolic bytes.
func (m *Machine) lineTermMatches(b []value) [][2]int {
	var out [][2]int
	for i := 0; i < len(b); {
		if m.truth(m.byteEq(b[i], uint8('\r'))) {
			if i+1 < len(b) && m.truth(m.byteEq(b[i+1], uint8('\n'))) {
				out = append(out, [2]int{i, i + 2})
				i += 2
				continue
			}
			out = append(out, [2]int{i, i + 1})
			i++
			continue
		}
		if m.truth(m.byteEq(b[i], uint8('\n'))) {
			out = append(out, [2]int{i, i + 1})
		}
		i++
	}
	return out
}

func (m *Machine) reFindAllIndex(re *regexp.Regexp, b []value, n int) value {
	if cb, ok := concreteBytes(b); ok {
		res := re.FindAllIndex(cb, n)
		if res == nil {
			return []value(nil)
		}
		out := make([]value, len(res))
		for i, r := range res {
			out[i] = []value{r[0], r[1]}
		}
		return out
	}
	if re.String() != reLineTerm || n >= 0 {
		panic(unsupported("regexp %q FindAllIndex on symbolic text", re.String()))
	}
	ms := m.lineTermMatches(b)
	if len(ms) == 0 {
		return []value(nil)
	}
	out := make([]value, len(ms))
	for i, r := range ms {
		out[i] = []value{r[0], r[1]}
	}
	return out
}

func (m *Machine) reSplit(re *regexp.Regexp, s value, n int) value {
	if cs, ok := s.(string); ok {
		parts := re.Split(cs, n)
		if parts == nil {
			return []value(nil)
		}
		out := make([]value, len(parts))
		for i, p := range parts {
			out[i] = p
		}
		return out
	}
	if re.String() != reLineTerm || n >= 0 {
		panic(unsupported("regexp %q Split on symbolic text", re.String()))
	}
	b := strBytes(s)
	ms := m.lineTermMatches(b)
	// regexp.Split semantics for n<0: substrings between matches; an empty
	// string yields [""].
	var out []value
	beg := 0
	for _, r := range ms {
		out = append(out, normStr(append(symstr(nil), b[beg:r[0]]...)))
		beg = r[1]
	}
	out = append(out, normStr(append(symstr(nil), b[beg:]...)))
	return out
}
