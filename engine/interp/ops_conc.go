package interp

// Concrete operators, taken from golang.org/x/tools/go/ssa/interp (ops.go)
// with small changes (own map/chan types, explicit run-time panics are raised
// by the callers in ops.go).

import (
	"fmt"
	"go/constant"
	"go/token"
	"go/types"
	"unsafe"

	"golang.org/x/tools/go/ssa"
)


// constValue returns the value of the constant with the
// dynamic type tag appropriate for c.Type().
func constValue(c *ssa.Const) value {
	if c.Value == nil {
		return zero(c.Type()) // typed zero
	}
	// c is not a type parameter so it's underlying type is basic.

	if t, ok := c.Type().Underlying().(*types.Basic); ok {
		// TODO(adonovan): eliminate untyped constants from SSA form.
		switch t.Kind() {
		case types.Bool, types.UntypedBool:
			return constant.BoolVal(c.Value)
		case types.Int, types.UntypedInt:
			// Assume sizeof(int) is same on host and target.
			return int(c.Int64())
		case types.Int8:
			return int8(c.Int64())
		case types.Int16:
			return int16(c.Int64())
		case types.Int32, types.UntypedRune:
			return int32(c.Int64())
		case types.Int64:
			return c.Int64()
		case types.Uint:
			// Assume sizeof(uint) is same on host and target.
			return uint(c.Uint64())
		case types.Uint8:
			return uint8(c.Uint64())
		case types.Uint16:
			return uint16(c.Uint64())
		case types.Uint32:
			return uint32(c.Uint64())
		case types.Uint64:
			return c.Uint64()
		case types.Uintptr:
			// Assume sizeof(uintptr) is same on host and target.
			return uintptr(c.Uint64())
		case types.Float32:
			return float32(c.Float64())
		case types.Float64, types.UntypedFloat:
			return c.Float64()
		case types.Complex64:
			return complex64(c.Complex128())
		case types.Complex128, types.UntypedComplex:
			return c.Complex128()
		case types.String, types.UntypedString:
			if c.Value.Kind() == constant.String {
				return constant.StringVal(c.Value)
			}
			return string(rune(c.Int64()))
		}
	}

	panic(fmt.Sprintf("constValue: %s", c))
}

// fitsInt returns true if x fits in type int according to sizes.
func fitsInt(x int64, sizes types.Sizes) bool {
	intSize := sizes.Sizeof(types.Typ[types.Int])
	if intSize < sizes.Sizeof(types.Typ[types.Int64]) {
		maxInt := int64(1)<<((intSize*8)-1) - 1
		minInt := -int64(1) << ((intSize * 8) - 1)
		return minInt <= x && x <= maxInt
	}
	return true
}
// asInt64 converts x, which must be an integer, to an int64.
//
// Callers that need a value directly usable as an int should combine this with fitsInt().
func asInt64(x value) int64 {
	switch x := x.(type) {
	case int:
		return int64(x)
	case int8:
		return int64(x)
	case int16:
		return int64(x)
	case int32:
		return int64(x)
	case int64:
		return x
	case uint:
		return int64(x)
	case uint8:
		return int64(x)
	case uint16:
		return int64(x)
	case uint32:
		return int64(x)
	case uint64:
		return int64(x)
	case uintptr:
		return int64(x)
	}
	panic(fmt.Sprintf("cannot convert %T to int64", x))
}

// asUint64 converts x, which must be an unsigned integer, to a uint64
// suitable for use as a bitwise shift count.
func asUint64(x value) uint64 {
	switch x := x.(type) {
	case uint:
		return uint64(x)
	case uint8:
		return uint64(x)
	case uint16:
		return uint64(x)
	case uint32:
		return uint64(x)
	case uint64:
		return x
	case uintptr:
		return uint64(x)
	}
	panic(fmt.Sprintf("cannot convert %T to uint64", x))
}

// asUnsigned returns the value of x, which must be an integer type, as its equivalent unsigned type,
// and returns true if x is non-negative.
func asUnsigned(x value) (value, bool) {
	switch x := x.(type) {
	case int:
		return uint(x), x >= 0
	case int8:
		return uint8(x), x >= 0
	case int16:
		return uint16(x), x >= 0
	case int32:
		return uint32(x), x >= 0
	case int64:
		return uint64(x), x >= 0
	case uint, uint8, uint32, uint64, uintptr:
		return x, true
	}
	panic(fmt.Sprintf("cannot convert %T to unsigned", x))
}

// zero returns a new "zero" value of the specified type.
func zero(t types.Type) value {
	switch t := t.(type) {
	case *types.Basic:
		if t.Kind() == types.UntypedNil {
			panic("untyped nil has no zero value")
		}
		if t.Info()&types.IsUntyped != 0 {
			// TODO(adonovan): make it an invariant that
			// this is unreachable.  Currently some
			// constants have 'untyped' types when they
			// should be defaulted by the typechecker.
			t = types.Default(t).(*types.Basic)
		}
		switch t.Kind() {
		case types.Bool:
			return false
		case types.Int:
			return int(0)
		case types.Int8:
			return int8(0)
		case types.Int16:
			return int16(0)
		case types.Int32:
			return int32(0)
		case types.Int64:
			return int64(0)
		case types.Uint:
			return uint(0)
		case types.Uint8:
			return uint8(0)
		case types.Uint16:
			return uint16(0)
		case types.Uint32:
			return uint32(0)
		case types.Uint64:
			return uint64(0)
		case types.Uintptr:
			return uintptr(0)
		case types.Float32:
			return float32(0)
		case types.Float64:
			return float64(0)
		case types.Complex64:
			return complex64(0)
		case types.Complex128:
			return complex128(0)
		case types.String:
			return ""
		case types.UnsafePointer:
			return unsafe.Pointer(nil)
		default:
			panic(fmt.Sprint("zero for unexpected type:", t))
		}
	case *types.Pointer:
		return (*value)(nil)
	case *types.Array:
		a := make(array, t.Len())
		for i := range a {
			a[i] = zero(t.Elem())
		}
		return a
	case *types.Named:
		return zero(t.Underlying())
	case *types.Alias:
		return zero(types.Unalias(t))
	case *types.Interface:
		return iface{} // nil type, methodset and value
	case *types.Slice:
		return []value(nil)
	case *types.Struct:
		s := make(structure, t.NumFields())
		for i := range s {
			s[i] = zero(t.Field(i).Type())
		}
		return s
	case *types.Tuple:
		if t.Len() == 1 {
			return zero(t.At(0).Type())
		}
		s := make(tuple, t.Len())
		for i := range s {
			s[i] = zero(t.At(i).Type())
		}
		return s
	case *types.Chan:
		return (*ichan)(nil)
	case *types.Map:
		return (*omap)(nil)
	case *types.Signature:
		return (*ssa.Function)(nil)
	}
	panic(fmt.Sprint("zero: unexpected ", t))
}

// binopC implements all arithmetic and logical binary operators for concrete operands.
func binopC(op token.Token, t types.Type, x, y value) value {
	switch op {
	case token.ADD:
		switch x.(type) {
		case int:
			return x.(int) + y.(int)
		case int8:
			return x.(int8) + y.(int8)
		case int16:
			return x.(int16) + y.(int16)
		case int32:
			return x.(int32) + y.(int32)
		case int64:
			return x.(int64) + y.(int64)
		case uint:
			return x.(uint) + y.(uint)
		case uint8:
			return x.(uint8) + y.(uint8)
		case uint16:
			return x.(uint16) + y.(uint16)
		case uint32:
			return x.(uint32) + y.(uint32)
		case uint64:
			return x.(uint64) + y.(uint64)
		case uintptr:
			return x.(uintptr) + y.(uintptr)
		case float32:
			return x.(float32) + y.(float32)
		case float64:
			return x.(float64) + y.(float64)
		case complex64:
			return x.(complex64) + y.(complex64)
		case complex128:
			return x.(complex128) + y.(complex128)
		case string:
			return x.(string) + y.(string)
		}

	case token.SUB:
		switch x.(type) {
		case int:
			return x.(int) - y.(int)
		case int8:
			return x.(int8) - y.(int8)
		case int16:
			return x.(int16) - y.(int16)
		case int32:
			return x.(int32) - y.(int32)
		case int64:
			return x.(int64) - y.(int64)
		case uint:
			return x.(uint) - y.(uint)
		case uint8:
			return x.(uint8) - y.(uint8)
		case uint16:
			return x.(uint16) - y.(uint16)
		case uint32:
			return x.(uint32) - y.(uint32)
		case uint64:
			return x.(uint64) - y.(uint64)
		case uintptr:
			return x.(uintptr) - y.(uintptr)
		case float32:
			return x.(float32) - y.(float32)
		case float64:
			return x.(float64) - y.(float64)
		case complex64:
			return x.(complex64) - y.(complex64)
		case complex128:
			return x.(complex128) - y.(complex128)
		}

	case token.MUL:
		switch x.(type) {
		case int:
			return x.(int) * y.(int)
		case int8:
			return x.(int8) * y.(int8)
		case int16:
			return x.(int16) * y.(int16)
		case int32:
			return x.(int32) * y.(int32)
		case int64:
			return x.(int64) * y.(int64)
		case uint:
			return x.(uint) * y.(uint)
		case uint8:
			return x.(uint8) * y.(uint8)
		case uint16:
			return x.(uint16) * y.(uint16)
		case uint32:
			return x.(uint32) * y.(uint32)
		case uint64:
			return x.(uint64) * y.(uint64)
		case uintptr:
			return x.(uintptr) * y.(uintptr)
		case float32:
			return x.(float32) * y.(float32)
		case float64:
			return x.(float64) * y.(float64)
		case complex64:
			return x.(complex64) * y.(complex64)
		case complex128:
			return x.(complex128) * y.(complex128)
		}

	case token.QUO:
		switch x.(type) {
		case int:
			return x.(int) / y.(int)
		case int8:
			return x.(int8) / y.(int8)
		case int16:
			return x.(int16) / y.(int16)
		case int32:
			return x.(int32) / y.(int32)
		case int64:
			return x.(int64) / y.(int64)
		case uint:
			return x.(uint) / y.(uint)
		case uint8:
			return x.(uint8) / y.(uint8)
		case uint16:
			return x.(uint16) / y.(uint16)
		case uint32:
			return x.(uint32) / y.(uint32)
		case uint64:
			return x.(uint64) / y.(uint64)
		case uintptr:
			return x.(uintptr) / y.(uintptr)
		case float32:
			return x.(float32) / y.(float32)
		case float64:
			return x.(float64) / y.(float64)
		case complex64:
			return x.(complex64) / y.(complex64)
		case complex128:
			return x.(complex128) / y.(complex128)
		}

	case token.REM:
		switch x.(type) {
		case int:
			return x.(int) % y.(int)
		case int8:
			return x.(int8) % y.(int8)
		case int16:
			return x.(int16) % y.(int16)
		case int32:
			return x.(int32) % y.(int32)
		case int64:
			return x.(int64) % y.(int64)
		case uint:
			return x.(uint) % y.(uint)
		case uint8:
			return x.(uint8) % y.(uint8)
		case uint16:
			return x.(uint16) % y.(uint16)
		case uint32:
			return x.(uint32) % y.(uint32)
		case uint64:
			return x.(uint64) % y.(uint64)
		case uintptr:
			return x.(uintptr) % y.(uintptr)
		}

	case token.AND:
		switch x.(type) {
		case int:
			return x.(int) & y.(int)
		case int8:
			return x.(int8) & y.(int8)
		case int16:
			return x.(int16) & y.(int16)
		case int32:
			return x.(int32) & y.(int32)
		case int64:
			return x.(int64) & y.(int64)
		case uint:
			return x.(uint) & y.(uint)
		case uint8:
			return x.(uint8) & y.(uint8)
		case uint16:
			return x.(uint16) & y.(uint16)
		case uint32:
			return x.(uint32) & y.(uint32)
		case uint64:
			return x.(uint64) & y.(uint64)
		case uintptr:
			return x.(uintptr) & y.(uintptr)
		}

	case token.OR:
		switch x.(type) {
		case int:
			return x.(int) | y.(int)
		case int8:
			return x.(int8) | y.(int8)
		case int16:
			return x.(int16) | y.(int16)
		case int32:
			return x.(int32) | y.(int32)
		case int64:
			return x.(int64) | y.(int64)
		case uint:
			return x.(uint) | y.(uint)
		case uint8:
			return x.(uint8) | y.(uint8)
		case uint16:
			return x.(uint16) | y.(uint16)
		case uint32:
			return x.(uint32) | y.(uint32)
		case uint64:
			return x.(uint64) | y.(uint64)
		case uintptr:
			return x.(uintptr) | y.(uintptr)
		}

	case token.XOR:
		switch x.(type) {
		case int:
			return x.(int) ^ y.(int)
		case int8:
			return x.(int8) ^ y.(int8)
		case int16:
			return x.(int16) ^ y.(int16)
		case int32:
			return x.(int32) ^ y.(int32)
		case int64:
			return x.(int64) ^ y.(int64)
		case uint:
			return x.(uint) ^ y.(uint)
		case uint8:
			return x.(uint8) ^ y.(uint8)
		case uint16:
			return x.(uint16) ^ y.(uint16)
		case uint32:
			return x.(uint32) ^ y.(uint32)
		case uint64:
			return x.(uint64) ^ y.(uint64)
		case uintptr:
			return x.(uintptr) ^ y.(uintptr)
		}

	case token.AND_NOT:
		switch x.(type) {
		case int:
			return x.(int) &^ y.(int)
		case int8:
			return x.(int8) &^ y.(int8)
		case int16:
			return x.(int16) &^ y.(int16)
		case int32:
			return x.(int32) &^ y.(int32)
		case int64:
			return x.(int64) &^ y.(int64)
		case uint:
			return x.(uint) &^ y.(uint)
		case uint8:
			return x.(uint8) &^ y.(uint8)
		case uint16:
			return x.(uint16) &^ y.(uint16)
		case uint32:
			return x.(uint32) &^ y.(uint32)
		case uint64:
			return x.(uint64) &^ y.(uint64)
		case uintptr:
			return x.(uintptr) &^ y.(uintptr)
		}

	case token.SHL:
		u, ok := asUnsigned(y)
		if !ok {
			panic("negative shift amount")
		}
		y := asUint64(u)
		switch x.(type) {
		case int:
			return x.(int) << y
		case int8:
			return x.(int8) << y
		case int16:
			return x.(int16) << y
		case int32:
			return x.(int32) << y
		case int64:
			return x.(int64) << y
		case uint:
			return x.(uint) << y
		case uint8:
			return x.(uint8) << y
		case uint16:
			return x.(uint16) << y
		case uint32:
			return x.(uint32) << y
		case uint64:
			return x.(uint64) << y
		case uintptr:
			return x.(uintptr) << y
		}

	case token.SHR:
		u, ok := asUnsigned(y)
		if !ok {
			panic("negative shift amount")
		}
		y := asUint64(u)
		switch x.(type) {
		case int:
			return x.(int) >> y
		case int8:
			return x.(int8) >> y
		case int16:
			return x.(int16) >> y
		case int32:
			return x.(int32) >> y
		case int64:
			return x.(int64) >> y
		case uint:
			return x.(uint) >> y
		case uint8:
			return x.(uint8) >> y
		case uint16:
			return x.(uint16) >> y
		case uint32:
			return x.(uint32) >> y
		case uint64:
			return x.(uint64) >> y
		case uintptr:
			return x.(uintptr) >> y
		}

	case token.LSS:
		switch x.(type) {
		case int:
			return x.(int) < y.(int)
		case int8:
			return x.(int8) < y.(int8)
		case int16:
			return x.(int16) < y.(int16)
		case int32:
			return x.(int32) < y.(int32)
		case int64:
			return x.(int64) < y.(int64)
		case uint:
			return x.(uint) < y.(uint)
		case uint8:
			return x.(uint8) < y.(uint8)
		case uint16:
			return x.(uint16) < y.(uint16)
		case uint32:
			return x.(uint32) < y.(uint32)
		case uint64:
			return x.(uint64) < y.(uint64)
		case uintptr:
			return x.(uintptr) < y.(uintptr)
		case float32:
			return x.(float32) < y.(float32)
		case float64:
			return x.(float64) < y.(float64)
		case string:
			return x.(string) < y.(string)
		}

	case token.LEQ:
		switch x.(type) {
		case int:
			return x.(int) <= y.(int)
		case int8:
			return x.(int8) <= y.(int8)
		case int16:
			return x.(int16) <= y.(int16)
		case int32:
			return x.(int32) <= y.(int32)
		case int64:
			return x.(int64) <= y.(int64)
		case uint:
			return x.(uint) <= y.(uint)
		case uint8:
			return x.(uint8) <= y.(uint8)
		case uint16:
			return x.(uint16) <= y.(uint16)
		case uint32:
			return x.(uint32) <= y.(uint32)
		case uint64:
			return x.(uint64) <= y.(uint64)
		case uintptr:
			return x.(uintptr) <= y.(uintptr)
		case float32:
			return x.(float32) <= y.(float32)
		case float64:
			return x.(float64) <= y.(float64)
		case string:
			return x.(string) <= y.(string)
		}

	case token.GTR:
		switch x.(type) {
		case int:
			return x.(int) > y.(int)
		case int8:
			return x.(int8) > y.(int8)
		case int16:
			return x.(int16) > y.(int16)
		case int32:
			return x.(int32) > y.(int32)
		case int64:
			return x.(int64) > y.(int64)
		case uint:
			return x.(uint) > y.(uint)
		case uint8:
			return x.(uint8) > y.(uint8)
		case uint16:
			return x.(uint16) > y.(uint16)
		case uint32:
			return x.(uint32) > y.(uint32)
		case uint64:
			return x.(uint64) > y.(uint64)
		case uintptr:
			return x.(uintptr) > y.(uintptr)
		case float32:
			return x.(float32) > y.(float32)
		case float64:
			return x.(float64) > y.(float64)
		case string:
			return x.(string) > y.(string)
		}

	case token.GEQ:
		switch x.(type) {
		case int:
			return x.(int) >= y.(int)
		case int8:
			return x.(int8) >= y.(int8)
		case int16:
			return x.(int16) >= y.(int16)
		case int32:
			return x.(int32) >= y.(int32)
		case int64:
			return x.(int64) >= y.(int64)
		case uint:
			return x.(uint) >= y.(uint)
		case uint8:
			return x.(uint8) >= y.(uint8)
		case uint16:
			return x.(uint16) >= y.(uint16)
		case uint32:
			return x.(uint32) >= y.(uint32)
		case uint64:
			return x.(uint64) >= y.(uint64)
		case uintptr:
			return x.(uintptr) >= y.(uintptr)
		case float32:
			return x.(float32) >= y.(float32)
		case float64:
			return x.(float64) >= y.(float64)
		case string:
			return x.(string) >= y.(string)
		}
	}
	panic(fmt.Sprintf("invalid binary op: %T %s %T", x, op, y))
}
// widen widens a basic typed value x to the widest type of its
// category, one of:
//
//	bool, int64, uint64, float64, complex128, string.
//
// This is inefficient but reduces the size of the cross-product of
// cases we have to consider.
func widen(x value) value {
	switch y := x.(type) {
	case bool, int64, uint64, float64, complex128, string, unsafe.Pointer:
		return x
	case int:
		return int64(y)
	case int8:
		return int64(y)
	case int16:
		return int64(y)
	case int32:
		return int64(y)
	case uint:
		return uint64(y)
	case uint8:
		return uint64(y)
	case uint16:
		return uint64(y)
	case uint32:
		return uint64(y)
	case uintptr:
		return uint64(y)
	case float32:
		return float64(y)
	case complex64:
		return complex128(y)
	}
	panic(fmt.Sprintf("cannot widen %T", x))
}
func foldLeft(op func(value, value) value, args []value) value {
	x := args[0]
	for _, arg := range args[1:] {
		x = op(x, arg)
	}
	return x
}

func min(x, y value) value {
	switch x := x.(type) {
	case float32:
		return fmin(x, y.(float32))
	case float64:
		return fmin(x, y.(float64))
	}

	// return (y < x) ? y : x
	if binopC(token.LSS, nil, y, x).(bool) {
		return y
	}
	return x
}

func max(x, y value) value {
	switch x := x.(type) {
	case float32:
		return fmax(x, y.(float32))
	case float64:
		return fmax(x, y.(float64))
	}

	// return (y > x) ? y : x
	if binopC(token.GTR, nil, y, x).(bool) {
		return y
	}
	return x
}

// copied from $GOROOT/src/runtime/minmax.go

type floaty interface{ ~float32 | ~float64 }

func fmin[F floaty](x, y F) F {
	if y != y || y < x {
		return y
	}
	if x != x || x < y || x != 0 {
		return x
	}
	// x and y are both ±0
	// if either is -0, return -0; else return +0
	return forbits(x, y)
}

func fmax[F floaty](x, y F) F {
	if y != y || y > x {
		return y
	}
	if x != x || x > y || x != 0 {
		return x
	}
	// x and y are both ±0
	// if both are -0, return -0; else return +0
	return fandbits(x, y)
}

func forbits[F floaty](x, y F) F {
	switch unsafe.Sizeof(x) {
	case 4:
		*(*uint32)(unsafe.Pointer(&x)) |= *(*uint32)(unsafe.Pointer(&y))
	case 8:
		*(*uint64)(unsafe.Pointer(&x)) |= *(*uint64)(unsafe.Pointer(&y))
	}
	return x
}

func fandbits[F floaty](x, y F) F {
	switch unsafe.Sizeof(x) {
	case 4:
		*(*uint32)(unsafe.Pointer(&x)) &= *(*uint32)(unsafe.Pointer(&y))
	case 8:
		*(*uint64)(unsafe.Pointer(&x)) &= *(*uint64)(unsafe.Pointer(&y))
	}
	return x
}
