package interp

import (
	"fmt"
	"sort"
	"sync"

	"gosym/sym"
)

// Decision is one recorded choice on a path.
type Decision struct {
	Taken  bool   // side taken of the branch condition
	Forced bool   // other side was infeasible when first explored
	Val    uint64 // for concretisation decisions: the candidate value tested
}

// WorkItem is a path prefix waiting to be explored.
type WorkItem struct {
	Prefix []Decision
	Model  map[string]uint64 // a model of the prefix's path condition (may be nil)
}

type Input struct {
	Name string
	Sort sym.Sort
	Kind string // "int", "byte", "bool", "float64", ...
}

type Violation struct {
	Label     string
	Model     map[string]uint64
	Known     []string // zzKnown ids active when the assertion failed
	Decisions int
	Detail    string
	Panic     bool
}

type PathStatus int

const (
	PathDone        PathStatus = iota // harness returned
	PathAssumed                       // cut by zzAssume
	PathInfeasible                    // prefix turned out infeasible
	PathBudget                        // instruction/decision budget exceeded
	PathUnknown                       // solver said unknown where a verdict was needed
	PathUnsupported                   // engine met something it cannot model
	PathPanic                         // uncaught target panic reached the harness entry
	PathDeadlock
)

func (s PathStatus) String() string {
	return [...]string{"done", "assumed", "infeasible", "budget", "unknown", "unsupported", "panic", "deadlock"}[s]
}

// Path is the per-execution symbolic state.
type Path struct {
	Ctx       *sym.Ctx
	Solver    *sym.Solver
	Prefix    []Decision
	Decisions []Decision
	NewWork   []WorkItem
	Model     map[string]uint64
	ev        *sym.Evaluator
	Inputs    []Input
	Violations []Violation
	Covers    map[string]bool
	Known     map[string]bool
	Status    PathStatus
	Detail    string
	Unknowns  int // feasibility queries answered unknown
	Digest    []string
	Notes     map[string]int64
	pcLen     int
	asserted  int
	MaxDecisions int
	pc           []*sym.Term
	dom          map[*sym.Term]*[4]uint64 // feasible values of BV8 variables constrained only by single-variable conditions
	impure       map[*sym.Term]bool       // BV8 variables that occur in multi-variable constraints
	varsOf       map[*sym.Term]*sym.Term  // memo: the single variable of a term, multiVar, or nil (none)
	ttab         map[*sym.Term]*[4]uint64 // memo: truth table of a single-BV8-variable condition
	FastDecided  int
	Fallback     func() []*sym.Solver // lazily started alternative back ends
	FallbackUsed int
	pendingVal   uint64
	implied      map[*sym.Term]bool // conditions already implied by the path condition
	EvalOnly     map[string]uint64  // selftest mode: conditions are evaluated under this assignment, no forking
	Emit         func(WorkItem) // publishes a newly discovered alternative at once
}

func (m *Machine) ctx() *sym.Ctx { return m.path.Ctx }

type pathAbort struct {
	status PathStatus
	detail string
}

func (p *Path) setModel(mod map[string]uint64) {
	p.Model = mod
	p.ev = sym.NewEvaluator(mod)
}

func (p *Path) vars() []*sym.Term { return p.Ctx.Vars }

// truth resolves a bool-or-term condition to a concrete bool, forking if needed.
func (m *Machine) truth(c value) bool {
	switch c := c.(type) {
	case bool:
		return c
	case *sym.Term:
		if c.IsConst() {
			return c.Val != 0
		}
		return m.branch(c)
	}
	panic(engineError{fmt.Sprintf("truth(%T)", c)})
}

// branch decides a symbolic condition on this path.
func (m *Machine) branch(cond *sym.Term) bool {
	p := m.path
	if p.EvalOnly != nil {
		return sym.Eval(cond, p.EvalOnly) != 0
	}
	idx := len(p.Decisions)
	if idx < len(p.Prefix) {
		d := p.Prefix[idx]
		p.Decisions = append(p.Decisions, d)
		if !d.Forced {
			if d.Taken {
				p.assertPC(cond)
			} else {
				p.assertPC(p.Ctx.Not(cond))
			}
		}
		if idx == len(p.Prefix)-1 {
			m.endOfPrefix()
		}
		return d.Taken
	}
	if p.MaxDecisions > 0 && idx >= p.MaxDecisions {
		panic(pathAbort{PathBudget, "decision budget exceeded"})
	}
	if known, ok := p.implied[cond]; ok {
		p.Decisions = append(p.Decisions, Decision{Taken: known, Forced: true})
		return known
	}
	v := p.ev.Eval(cond) != 0
	if fv, forced, altModel, ok := p.fastDecide(cond, v); ok {
		p.FastDecided++
		d := Decision{Taken: fv, Forced: forced}
		if !forced {
			m.noteFork()
			alt := make([]Decision, idx+1)
			copy(alt, p.Decisions)
			alt[idx] = Decision{Taken: !fv}
			p.emit(WorkItem{Prefix: alt, Model: altModel})
		}
		p.Decisions = append(p.Decisions, d)
		if !forced {
			if fv {
				p.assertPC(cond)
			} else {
				p.assertPC(p.Ctx.Not(cond))
			}
		}
		return fv
	}
	var other *sym.Term
	if v {
		other = p.Ctx.Not(cond)
	} else {
		other = cond
	}
	res, mod := p.solve(other, p.vars())
	d := Decision{Taken: v}
	switch res {
	case sym.Unsat:
		d.Forced = true
		p.implied[cond] = v
		p.implied[p.Ctx.Not(cond)] = !v
	case sym.Sat, sym.Unknown:
		if res == sym.Unknown {
			p.Unknowns++
		}
		m.noteFork()
		alt := make([]Decision, idx+1)
		copy(alt, p.Decisions)
		alt[idx] = Decision{Taken: !v}
		p.emit(WorkItem{Prefix: alt, Model: mod})
	}
	p.Decisions = append(p.Decisions, d)
	if !d.Forced {
		if v {
			p.assertPC(cond)
		} else {
			p.assertPC(p.Ctx.Not(cond))
		}
	}
	return v
}

// endOfPrefix establishes a model for the replayed prefix.
func (m *Machine) endOfPrefix() {
	p := m.path
	if p.Model != nil {
		// trust but verify cheaply: the model came from the query that created this item
		return
	}
	res, mod := p.solve(nil, p.vars())
	switch res {
	case sym.Sat:
		p.setModel(mod)
	case sym.Unsat:
		panic(pathAbort{PathInfeasible, "prefix infeasible"})
	default:
		panic(pathAbort{PathUnknown, "solver unknown at end of prefix: " + p.Solver.LastError})
	}
}

// refreshModel obtains a model that also covers variables created after the
// last model was taken (new variables default to 0 in the evaluator, which is
// always consistent because fresh variables are unconstrained).
func (p *Path) refreshModel() {}

// concretize enumerates the feasible values of term t (one per path).
func (m *Machine) concretize(t *sym.Term) uint64 {
	if t.IsConst() {
		return t.Val
	}
	p := m.path
	for n := 0; ; n++ {
		if n > 4096 {
			panic(pathAbort{PathUnsupported, "concretize: domain larger than 4096"})
		}
		idx := len(p.Decisions)
		var v uint64
		if idx < len(p.Prefix) {
			v = p.Prefix[idx].Val
		} else {
			v = p.ev.Eval(t)
		}
		cond := p.Ctx.Eq(t, p.Ctx.Const(t.Sort, v))
		taken := m.branchVal(cond, v)
		if taken {
			return v
		}
	}
}

// branchVal is branch with a recorded candidate value.
func (m *Machine) branchVal(cond *sym.Term, v uint64) bool {
	p := m.path
	idx := len(p.Decisions)
	if cond.IsConst() {
		// keep the decision vector aligned: record a forced decision
		d := Decision{Taken: cond.Val != 0, Forced: true, Val: v}
		if idx < len(p.Prefix) {
			d = p.Prefix[idx]
		}
		p.Decisions = append(p.Decisions, d)
		if idx == len(p.Prefix)-1 {
			m.endOfPrefix()
		}
		return d.Taken
	}
	p.pendingVal = v
	r := m.branch(cond)
	p.pendingVal = 0
	p.Decisions[idx].Val = v
	return r
}

// assume cuts the path unless c holds.
func (m *Machine) assume(c value) {
	if !m.truth(c) {
		panic(pathAbort{PathAssumed, ""})
	}
}

// check handles zzAssert.
func (m *Machine) check(c value, label string) {
	p := m.path
	switch c := c.(type) {
	case bool:
		if !c {
			m.violation(label, p.Model, "")
			panic(pathAbort{PathDone, "assertion failed: " + label})
		}
		return
	case *sym.Term:
		if c.IsConst() {
			m.check(c.Val != 0, label)
			return
		}
		idx := len(p.Decisions)
		if idx < len(p.Prefix) {
			// replaying: the assertion was decided before
			d := p.Prefix[idx]
			p.Decisions = append(p.Decisions, d)
			if !d.Forced {
				p.assertPC(c)
			}
			if idx == len(p.Prefix)-1 {
				m.endOfPrefix()
			}
			if !d.Taken {
				panic(engineError{"replayed a failed assertion"})
			}
			return
		}
		if v := p.singleVar(c); v != nil && v != multiVar && v.Sort == sym.BV8 {
			tt := p.truthTable(c, v)
			d := p.domain(v)
			if d[0]&^tt[0] == 0 && d[1]&^tt[1] == 0 && d[2]&^tt[2] == 0 && d[3]&^tt[3] == 0 {
				p.Decisions = append(p.Decisions, Decision{Taken: true, Forced: true})
				p.Notes["assert_unsat"]++
				p.Notes["assert_fast"]++
				return
			}
		}
		if p.ev.Eval(c) == 0 {
			// current model already violates
			m.violation(label, p.Model, "")
			res, mod := p.solve(c, p.vars())
			switch res {
			case sym.Unsat:
				panic(pathAbort{PathDone, "assertion failed on every input of the path: " + label})
			case sym.Sat:
				p.setModel(mod)
			default:
				p.Unknowns++
				panic(pathAbort{PathUnknown, "unknown after violated assertion"})
			}
			p.Decisions = append(p.Decisions, Decision{Taken: true})
			p.assertPC(c)
			return
		}
		res, mod := p.solve(p.Ctx.Not(c), p.vars())
		switch res {
		case sym.Unsat:
			p.Decisions = append(p.Decisions, Decision{Taken: true, Forced: true})
			p.Notes["assert_unsat"]++
		case sym.Sat:
			m.violation(label, mod, "")
			p.Decisions = append(p.Decisions, Decision{Taken: true})
			p.assertPC(c)
		default:
			p.Unknowns++
			p.Decisions = append(p.Decisions, Decision{Taken: true})
			p.assertPC(c)
			p.Notes["assert_unknown"]++
			p.Status = PathUnknown
			p.Detail = "assertion query unknown: " + label + " " + p.Solver.LastError
		}
		return
	}
	panic(engineError{fmt.Sprintf("zzAssert(%T)", c)})
}

func (m *Machine) violation(label string, mod map[string]uint64, detail string) {
	p := m.path
	cp := map[string]uint64{}
	for k, v := range mod {
		cp[k] = v
	}
	var known []string
	for k := range p.Known {
		known = append(known, k)
	}
	sort.Strings(known)
	p.Violations = append(p.Violations, Violation{Label: label, Model: cp, Known: known, Decisions: len(p.Decisions), Detail: detail})
}

// newVar creates a fresh symbolic input.
func (m *Machine) newVar(name string, s sym.Sort, kind string) *sym.Term {
	p := m.path
	for _, in := range p.Inputs {
		if in.Name == name {
			panic(engineError{"duplicate symbolic input name " + name})
		}
	}
	p.Inputs = append(p.Inputs, Input{Name: name, Sort: s, Kind: kind})
	return p.Ctx.Var(s, name)
}

func (p *Path) assertPC(t *sym.Term) {
	p.implied[t] = true
	if t.Op == sym.OpNot {
		p.implied[t.Args[0]] = false
	} else {
		p.implied[p.Ctx.Not(t)] = false
	}
	p.pc = append(p.pc, t)
	p.Solver.Assert(t)
	p.noteConstraint(t)
}

var multiVar = &sym.Term{}

// ttCache shares truth tables of single-byte-variable conditions across paths and workers.
var ttCache sync.Map

// singleVar returns the only variable of t, multiVar if there are several, nil if none.
func (p *Path) singleVar(t *sym.Term) *sym.Term {
	if t.Op == sym.OpConst {
		return nil
	}
	if t.Op == sym.OpVar {
		return t
	}
	if r, ok := p.varsOf[t]; ok {
		return r
	}
	var r *sym.Term
	for _, a := range t.Args {
		v := p.singleVar(a)
		if v == nil {
			continue
		}
		if v == multiVar || (r != nil && r != v) {
			r = multiVar
			break
		}
		r = v
	}
	p.varsOf[t] = r
	return r
}

func (p *Path) markImpure(t *sym.Term, seen map[*sym.Term]bool) {
	if t.Op == sym.OpConst || seen[t] {
		return
	}
	seen[t] = true
	if t.Op == sym.OpVar {
		p.impure[t] = true
		return
	}
	for _, a := range t.Args {
		p.markImpure(a, seen)
	}
}

func (p *Path) truthTable(cond, v *sym.Term) *[4]uint64 {
	if tt, ok := p.ttab[cond]; ok {
		return tt
	}
	key, keyOK := sym.CanonKey(cond, 200)
	if keyOK {
		if c, ok := ttCache.Load(key); ok {
			tt := c.(*[4]uint64)
			p.ttab[cond] = tt
			return tt
		}
	}
	tt := new([4]uint64)
	small := keyOK
	for x := 0; x < 256; x++ {
		var r uint64
		done := false
		if small {
			budget := 4000
			r, done = sym.EvalTree(cond, uint64(x), &budget)
			if !done {
				small = false
			}
		}
		if !done {
			r = sym.Eval(cond, map[string]uint64{v.Name: uint64(x)})
		}
		if r != 0 {
			tt[x>>6] |= 1 << uint(x&63)
		}
	}
	if keyOK {
		ttCache.Store(key, tt)
	}
	p.ttab[cond] = tt
	return tt
}

func (p *Path) domain(v *sym.Term) *[4]uint64 {
	d, ok := p.dom[v]
	if !ok {
		d = &[4]uint64{^uint64(0), ^uint64(0), ^uint64(0), ^uint64(0)}
		p.dom[v] = d
	}
	return d
}

// noteConstraint keeps the per-byte domains in step with the path condition.
func (p *Path) noteConstraint(t *sym.Term) {
	v := p.singleVar(t)
	if v == nil {
		return
	}
	if v == multiVar || v.Sort != sym.BV8 {
		if v == multiVar {
			p.markImpure(t, map[*sym.Term]bool{})
		}
		return
	}
	tt := p.truthTable(t, v)
	d := p.domain(v)
	for i := range d {
		d[i] &= tt[i]
	}
}

func pickBit(s *[4]uint64) (int, bool) {
	for i, w := range s {
		if w != 0 {
			for b := 0; b < 64; b++ {
				if w&(1<<uint(b)) != 0 {
					return i*64 + b, true
				}
			}
		}
	}
	return 0, false
}

// fastDecide settles a condition over a single byte variable from its domain
// without the solver. modelSide is the truth value under the current model.
// It returns the side to take, whether the other side is infeasible, and a model for the other side.
func (p *Path) fastDecide(cond *sym.Term, modelSide bool) (side, forced bool, altModel map[string]uint64, ok bool) {
	v := p.singleVar(cond)
	if v == nil || v == multiVar || v.Sort != sym.BV8 {
		return
	}
	tt := p.truthTable(cond, v)
	d := p.domain(v)
	var tset, fset [4]uint64
	for i := range d {
		tset[i] = d[i] & tt[i]
		fset[i] = d[i] &^ tt[i]
	}
	_, anyT := pickBit(&tset)
	_, anyF := pickBit(&fset)
	switch {
	case !anyT && !anyF:
		return // domain empty: let the solver speak
	case !anyF:
		return true, true, nil, true
	case !anyT:
		return false, true, nil, true
	}
	if p.impure[v] {
		return // both sides possible by domain, but other constraints may exclude one
	}
	// both feasible and independent of everything else: patch the model for the alternative
	alt := make(map[string]uint64, len(p.Model)+1)
	for k, x := range p.Model {
		alt[k] = x
	}
	var other *[4]uint64
	if modelSide {
		other = &fset
	} else {
		other = &tset
	}
	x, _ := pickBit(other)
	alt[v.Name] = uint64(x)
	return modelSide, false, alt, true
}

// solve asks the primary solver and, on unknown, the fallback back ends with
// the same path condition.
func (p *Path) solve(extra *sym.Term, vars []*sym.Term) (sym.Result, map[string]uint64) {
	res, mod := p.Solver.Check(extra, vars)
	if res != sym.Unknown || p.Fallback == nil {
		return res, mod
	}
	for _, fb := range p.Fallback() {
		fb.Reset()
		for _, t := range p.pc {
			fb.Assert(t)
		}
		r2, m2 := fb.Check(extra, vars)
		if r2 != sym.Unknown {
			p.FallbackUsed++
			p.Notes["fallback_"+fb.Kind]++
			return r2, m2
		}
	}
	return res, mod
}

func (m *Machine) noteFork() {
	if !m.ForkSites || m.curInstr == nil {
		return
	}
	pos := m.P.Fset.Position(m.curInstr.Pos())
	if !pos.IsValid() && m.curFn != nil {
		pos = m.P.Fset.Position(m.curFn.Pos())
	}
	m.path.Notes[fmt.Sprintf("fork@%s:%d", pos.Filename, pos.Line)]++
}

func (p *Path) emit(w WorkItem) {
	if p.pendingVal != 0 && len(w.Prefix) > 0 {
		w.Prefix[len(w.Prefix)-1].Val = p.pendingVal
	}
	if p.Emit != nil {
		p.Emit(w)
		return
	}
	p.NewWork = append(p.NewWork, w)
}

// freshChoice enumerates the n values of a fresh, otherwise unconstrained
// variable v (already assumed < n) by emitting all alternatives at once.
func (m *Machine) freshChoice(v *sym.Term, n int) int {
	p := m.path
	idx := len(p.Decisions)
	if idx < len(p.Prefix) {
		return int(m.concretize(v))
	}
	for j := 1; j < n; j++ {
		alt := make([]Decision, idx, idx+j+1)
		copy(alt, p.Decisions)
		for i := 0; i < j; i++ {
			alt = append(alt, Decision{Taken: false, Val: uint64(i)})
		}
		alt = append(alt, Decision{Taken: true, Val: uint64(j)})
		mod := make(map[string]uint64, len(p.Model)+1)
		for k, x := range p.Model {
			mod[k] = x
		}
		mod[v.Name] = uint64(j)
		pv := p.pendingVal
		p.pendingVal = 0
		p.emit(WorkItem{Prefix: alt, Model: mod})
		p.pendingVal = pv
	}
	// take 0 on this path
	if p.Model[v.Name] != 0 {
		mod := make(map[string]uint64, len(p.Model)+1)
		for k, x := range p.Model {
			mod[k] = x
		}
		mod[v.Name] = 0
		p.setModel(mod)
	}
	p.Decisions = append(p.Decisions, Decision{Taken: true, Val: 0})
	p.assertPC(p.Ctx.Eq(v, p.Ctx.Const(v.Sort, 0)))
	return 0
}
