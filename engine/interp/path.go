package interp

import (
	"fmt"
	"sort"

	"gosym/sym"
)

// Decision is one recorded choice on a path.
type Decision struct {
	Taken  bool   // side taken of the branch condition
	Forced bool   // other side was infeasible when first explored
	Val    uint64 // for concretisation decisions: the candidate value tested
}

// WorkItem is a path prefix waiting to be explored.
type WorkItem struct {
	Prefix []Decision
	Model  map[string]uint64 // a model of the prefix's path condition (may be nil)
}

type Input struct {
	Name string
	Sort sym.Sort
	Kind string // "int", "byte", "bool", "float64", ...
}

type Violation struct {
	Label     string
	Model     map[string]uint64
	Known     []string // zzKnown ids active when the assertion failed
	Decisions int
	Detail    string
	Panic     bool
}

type PathStatus int

const (
	PathDone        PathStatus = iota // harness returned
	PathAssumed                       // cut by zzAssume
	PathInfeasible                    // prefix turned out infeasible
	PathBudget                        // instruction/decision budget exceeded
	PathUnknown                       // solver said unknown where a verdict was needed
	PathUnsupported                   // engine met something it cannot model
	PathPanic                         // uncaught target panic reached the harness entry
	PathDeadlock
)

func (s PathStatus) String() string {
	return [...]string{"done", "assumed", "infeasible", "budget", "unknown", "unsupported", "panic", "deadlock"}[s]
}

// Path is the per-execution symbolic state.
type Path struct {
	Ctx       *sym.Ctx
	Solver    *sym.Solver
	Prefix    []Decision
	Decisions []Decision
	NewWork   []WorkItem
	Model     map[string]uint64
	ev        *sym.Evaluator
	Inputs    []Input
	Violations []Violation
	Covers    map[string]bool
	Known     map[string]bool
	Status    PathStatus
	Detail    string
	Unknowns  int // feasibility queries answered unknown
	Digest    []string
	Notes     map[string]int64
	pcLen     int
	asserted  int
	MaxDecisions int
	pc           []*sym.Term
	Fallback     func() []*sym.Solver // lazily started alternative back ends
	FallbackUsed int
}

func (m *Machine) ctx() *sym.Ctx { return m.path.Ctx }

type pathAbort struct {
	status PathStatus
	detail string
}

func (p *Path) setModel(mod map[string]uint64) {
	p.Model = mod
	p.ev = sym.NewEvaluator(mod)
}

func (p *Path) vars() []*sym.Term { return p.Ctx.Vars }

// truth resolves a bool-or-term condition to a concrete bool, forking if needed.
func (m *Machine) truth(c value) bool {
	switch c := c.(type) {
	case bool:
		return c
	case *sym.Term:
		if c.IsConst() {
			return c.Val != 0
		}
		return m.branch(c)
	}
	panic(engineError{fmt.Sprintf("truth(%T)", c)})
}

// branch decides a symbolic condition on this path.
func (m *Machine) branch(cond *sym.Term) bool {
	p := m.path
	idx := len(p.Decisions)
	if idx < len(p.Prefix) {
		d := p.Prefix[idx]
		p.Decisions = append(p.Decisions, d)
		if !d.Forced {
			if d.Taken {
				p.assertPC(cond)
			} else {
				p.assertPC(p.Ctx.Not(cond))
			}
		}
		if idx == len(p.Prefix)-1 {
			m.endOfPrefix()
		}
		return d.Taken
	}
	if p.MaxDecisions > 0 && idx >= p.MaxDecisions {
		panic(pathAbort{PathBudget, "decision budget exceeded"})
	}
	v := p.ev.Eval(cond) != 0
	var other *sym.Term
	if v {
		other = p.Ctx.Not(cond)
	} else {
		other = cond
	}
	res, mod := p.solve(other, p.vars())
	d := Decision{Taken: v}
	switch res {
	case sym.Unsat:
		d.Forced = true
	case sym.Sat, sym.Unknown:
		if res == sym.Unknown {
			p.Unknowns++
		}
		alt := make([]Decision, idx+1)
		copy(alt, p.Decisions)
		alt[idx] = Decision{Taken: !v}
		p.NewWork = append(p.NewWork, WorkItem{Prefix: alt, Model: mod})
	}
	p.Decisions = append(p.Decisions, d)
	if !d.Forced {
		if v {
			p.assertPC(cond)
		} else {
			p.assertPC(p.Ctx.Not(cond))
		}
	}
	return v
}

// endOfPrefix establishes a model for the replayed prefix.
func (m *Machine) endOfPrefix() {
	p := m.path
	if p.Model != nil {
		// trust but verify cheaply: the model came from the query that created this item
		return
	}
	res, mod := p.solve(nil, p.vars())
	switch res {
	case sym.Sat:
		p.setModel(mod)
	case sym.Unsat:
		panic(pathAbort{PathInfeasible, "prefix infeasible"})
	default:
		panic(pathAbort{PathUnknown, "solver unknown at end of prefix: " + p.Solver.LastError})
	}
}

// refreshModel obtains a model that also covers variables created after the
// last model was taken (new variables default to 0 in the evaluator, which is
// always consistent because fresh variables are unconstrained).
func (p *Path) refreshModel() {}

// concretize enumerates the feasible values of term t (one per path).
func (m *Machine) concretize(t *sym.Term) uint64 {
	if t.IsConst() {
		return t.Val
	}
	p := m.path
	for n := 0; ; n++ {
		if n > 4096 {
			panic(pathAbort{PathUnsupported, "concretize: domain larger than 4096"})
		}
		idx := len(p.Decisions)
		var v uint64
		if idx < len(p.Prefix) {
			v = p.Prefix[idx].Val
		} else {
			v = p.ev.Eval(t)
		}
		cond := p.Ctx.Eq(t, p.Ctx.Const(t.Sort, v))
		taken := m.branchVal(cond, v)
		if taken {
			return v
		}
	}
}

// branchVal is branch with a recorded candidate value.
func (m *Machine) branchVal(cond *sym.Term, v uint64) bool {
	p := m.path
	idx := len(p.Decisions)
	if cond.IsConst() {
		// keep the decision vector aligned: record a forced decision
		d := Decision{Taken: cond.Val != 0, Forced: true, Val: v}
		if idx < len(p.Prefix) {
			d = p.Prefix[idx]
		}
		p.Decisions = append(p.Decisions, d)
		if idx == len(p.Prefix)-1 {
			m.endOfPrefix()
		}
		return d.Taken
	}
	r := m.branch(cond)
	p.Decisions[idx].Val = v
	// the alternative pushed by branch (if any) must carry Val too
	if n := len(p.NewWork); n > 0 {
		w := p.NewWork[n-1]
		if len(w.Prefix) == idx+1 {
			w.Prefix[idx].Val = v
		}
	}
	return r
}

// assume cuts the path unless c holds.
func (m *Machine) assume(c value) {
	if !m.truth(c) {
		panic(pathAbort{PathAssumed, ""})
	}
}

// check handles zzAssert.
func (m *Machine) check(c value, label string) {
	p := m.path
	switch c := c.(type) {
	case bool:
		if !c {
			m.violation(label, p.Model, "")
			panic(pathAbort{PathDone, "assertion failed: " + label})
		}
		return
	case *sym.Term:
		if c.IsConst() {
			m.check(c.Val != 0, label)
			return
		}
		idx := len(p.Decisions)
		if idx < len(p.Prefix) {
			// replaying: the assertion was decided before
			d := p.Prefix[idx]
			p.Decisions = append(p.Decisions, d)
			if !d.Forced {
				p.assertPC(c)
			}
			if idx == len(p.Prefix)-1 {
				m.endOfPrefix()
			}
			if !d.Taken {
				panic(engineError{"replayed a failed assertion"})
			}
			return
		}
		if p.ev.Eval(c) == 0 {
			// current model already violates
			m.violation(label, p.Model, "")
			res, mod := p.solve(c, p.vars())
			switch res {
			case sym.Unsat:
				panic(pathAbort{PathDone, "assertion failed on every input of the path: " + label})
			case sym.Sat:
				p.setModel(mod)
			default:
				p.Unknowns++
				panic(pathAbort{PathUnknown, "unknown after violated assertion"})
			}
			p.Decisions = append(p.Decisions, Decision{Taken: true})
			p.assertPC(c)
			return
		}
		res, mod := p.solve(p.Ctx.Not(c), p.vars())
		switch res {
		case sym.Unsat:
			p.Decisions = append(p.Decisions, Decision{Taken: true, Forced: true})
			p.Notes["assert_unsat"]++
		case sym.Sat:
			m.violation(label, mod, "")
			p.Decisions = append(p.Decisions, Decision{Taken: true})
			p.assertPC(c)
		default:
			p.Unknowns++
			p.Decisions = append(p.Decisions, Decision{Taken: true})
			p.assertPC(c)
			p.Notes["assert_unknown"]++
			p.Status = PathUnknown
			p.Detail = "assertion query unknown: " + label + " " + p.Solver.LastError
		}
		return
	}
	panic(engineError{fmt.Sprintf("zzAssert(%T)", c)})
}

func (m *Machine) violation(label string, mod map[string]uint64, detail string) {
	p := m.path
	cp := map[string]uint64{}
	for k, v := range mod {
		cp[k] = v
	}
	var known []string
	for k := range p.Known {
		known = append(known, k)
	}
	sort.Strings(known)
	p.Violations = append(p.Violations, Violation{Label: label, Model: cp, Known: known, Decisions: len(p.Decisions), Detail: detail})
}

// newVar creates a fresh symbolic input.
func (m *Machine) newVar(name string, s sym.Sort, kind string) *sym.Term {
	p := m.path
	for _, in := range p.Inputs {
		if in.Name == name {
			panic(engineError{"duplicate symbolic input name " + name})
		}
	}
	p.Inputs = append(p.Inputs, Input{Name: name, Sort: s, Kind: kind})
	return p.Ctx.Var(s, name)
}

func (p *Path) assertPC(t *sym.Term) {
	p.pc = append(p.pc, t)
	p.Solver.Assert(t)
}

// solve asks the primary solver and, on unknown, the fallback back ends with
// the same path condition.
func (p *Path) solve(extra *sym.Term, vars []*sym.Term) (sym.Result, map[string]uint64) {
	res, mod := p.Solver.Check(extra, vars)
	if res != sym.Unknown || p.Fallback == nil {
		return res, mod
	}
	for _, fb := range p.Fallback() {
		fb.Reset()
		for _, t := range p.pc {
			fb.Assert(t)
		}
		r2, m2 := fb.Check(extra, vars)
		if r2 != sym.Unknown {
			p.FallbackUsed++
			p.Notes["fallback_"+fb.Kind]++
			return r2, m2
		}
	}
	return res, mod
}
